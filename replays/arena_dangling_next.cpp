// C15 replay: after a soft reset, Arena::_alloc_oneshot frees retained blocks that are too small but leaves
// cur_block->next pointing at the freed block; if the following malloc fails the arena keeps the dangling link and
// the next reset()/destructor frees the block again.
// g++ -std=c++17 -g -I/repo arena_dangling_next.cpp -o t -L/repo/_build -lasmjit -Wl,-rpath,/repo/_build && ./t
#include <asmjit/core.h>
#include <cstdio>
#include <cstdlib>
#include <sys/wait.h>
#include <unistd.h>
using namespace asmjit;
static bool g_fail = false;
extern "C" void* __libc_malloc(size_t);
extern "C" void* malloc(size_t n) { return g_fail ? nullptr : __libc_malloc(n); }
static int child() {
  Arena arena(1024);                       // small blocks
  for (int i = 0; i < 8; i++) (void)arena.alloc_oneshot(Arena::aligned_size(900));   // several blocks
  arena.reset(ResetPolicy::kSoft);          // keeps the blocks, current = first
  (void)arena.alloc_oneshot(Arena::aligned_size(900));                               // stay in the first block
  g_fail = true;
  void* p = arena.alloc_oneshot(Arena::aligned_size(1 << 20));   // retained blocks are too small: freed; new block: malloc fails
  g_fail = false;
  if (p) return 3;
  arena.reset(ResetPolicy::kHard);          // walks the block list
  return 0;
}
int main() {
  pid_t pid = fork();
  if (pid == 0) _exit(child());
  int st = 0; waitpid(pid, &st, 0);
  if (WIFSIGNALED(st)) { printf("FAIL: arena reset after a failed allocation killed by signal %d (double free / use after free)\n", WTERMSIG(st)); return 1; }
  printf("child exit %d\n%s\n", WEXITSTATUS(st), WEXITSTATUS(st) == 0 ? "PASS" : "FAIL");
  return WEXITSTATUS(st);
}
