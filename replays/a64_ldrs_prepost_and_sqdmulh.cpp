// C02 replay (reference words from llvm-mc 14, also derivable from the Arm ARM):
//  (1) ldrsb / ldrsh with pre- or post-index: the W and X destination variants are swapped (the pre_post_op template of the two rows
//      holds opc = 10 while the other templates of the same rows hold opc = 11, x is XOR-ed into bit 22).
//  (2) sqdmulh / sqrdmulh scalar by element: the scalar bit (28) is missing - `sqdmulh h1, h2, v3.h[7]` is emitted as the v1.4h form.
// g++ -std=c++17 -I/repo a64_ldrs_prepost_and_sqdmulh.cpp -o t -L/repo/_build -lasmjit -Wl,-rpath,/repo/_build && ./t
#include <asmjit/a64.h>
#include <cstdio>
#include <cstring>
using namespace asmjit;
using namespace asmjit::a64;
static int bad = 0;
template<typename F> static void expect(const char* what, uint32_t want, F&& f) {
  CodeHolder code; code.init(Environment(Arch::kAArch64)); Assembler a(&code);
  Error e = f(a);
  uint32_t w = 0; if (code.text_section()->buffer().size() >= 4) memcpy(&w, code.text_section()->buffer().data(), 4);
  bool ok = e == Error::kOk && w == want;
  printf("%-28s err=%u %08X (want %08X) %s\n", what, unsigned(e), w, want, ok ? "ok" : "WRONG");
  bad += !ok;
}
int main() {
  expect("ldrsb w1, [x2], #1", 0x38C01441, [](Assembler& a) { return a.ldrsb(w1, ptr_post(x2, 1)); });
  expect("ldrsb x1, [x2], #1", 0x38801441, [](Assembler& a) { return a.ldrsb(x1, ptr_post(x2, 1)); });
  expect("ldrsh w1, [x2, #2]!", 0x78C02C41, [](Assembler& a) { return a.ldrsh(w1, ptr_pre(x2, 2)); });
  expect("ldrsh x1, [x2, #2]!", 0x78802C41, [](Assembler& a) { return a.ldrsh(x1, ptr_pre(x2, 2)); });
  expect("ldrsb w1, [x2, #1]", 0x39C00441, [](Assembler& a) { return a.ldrsb(w1, ptr(x2, 1)); });
  expect("sqdmulh h1, h2, v3.h[7]", 0x5F73C841, [](Assembler& a) { return a.sqdmulh(h1, h2, v3.h(7)); });
  expect("sqrdmulh s1, s2, v3.s[1]", 0x5FA3D041, [](Assembler& a) { return a.sqrdmulh(s1, s2, v3.s(1)); });
  printf("%s\n", bad ? "FAIL" : "PASS");
  return bad ? 1 : 0;
}
