// C12 replay: query_rw_info() clears the "replaceable by memory" information only for {er}; with {sae} - equally register-only, the
// validator refuses {sae} with a memory operand - it still reports the operand as reg/mem.
// g++ -std=c++17 -I/repo rwinfo_sae_regmem.cpp -o t -L/repo/_build -lasmjit -Wl,-rpath,/repo/_build && ./t
#include <asmjit/x86.h>
#include <cstdio>
using namespace asmjit;
int main() {
  bool ok = true;
  struct { InstId id; Operand ops[4]; size_t n; InstOptions opt; const char* txt; } cases[] = {
    { x86::Inst::kIdVmaxps, { x86::zmm0, x86::zmm1, x86::zmm2 }, 3, InstOptions::kX86_SAE, "vmaxps zmm0, zmm1, zmm2 {sae}" },
    { x86::Inst::kIdVaddps, { x86::zmm0, x86::zmm1, x86::zmm2 }, 3, InstOptions::kX86_ER,  "vaddps zmm0, zmm1, zmm2 {er}" },
    { x86::Inst::kIdVucomiss, { x86::xmm0, x86::xmm1 }, 2, InstOptions::kX86_SAE, "vucomiss xmm0, xmm1 {sae}" },
  };
  for (auto& c : cases) {
    InstRWInfo rw;
    Error e = InstAPI::query_rw_info(Arch::kX64, BaseInst(c.id, c.opt), c.ops, c.n, &rw);
    bool any_rm = false;
    for (size_t i = 0; i < c.n; i++) any_rm |= rw.operand(i).is_rm();
    // the memory form with the same option is refused by the validator
    Operand mops[4] = { c.ops[0], c.ops[1], c.ops[2] }; mops[c.n - 1] = x86::ptr(x86::rax);
    Error v = InstAPI::validate(Arch::kX64, BaseInst(c.id, c.opt), mops, c.n);
    printf("%-32s query=%u reports reg/mem=%d | memory form validates: %s\n", c.txt, unsigned(e), int(any_rm), v == Error::kOk ? "yes" : "no");
    ok &= e == Error::kOk && !(any_rm && v != Error::kOk);
  }
  printf("%s\n", ok ? "PASS" : "FAIL: an operand is reported replaceable by memory in a form that only exists with registers");
  return ok ? 0 : 1;
}
