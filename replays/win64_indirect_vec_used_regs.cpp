// C06 replay: Win64 passes a vector argument indirectly; the address travels in the GP register of the argument's position.
// FuncDetail assigned the register but did not add it to used_regs() (every other register assignment does):
//   (int32x4, int32) -> arg0 = RCX (indirect), arg1 = EDX, used_regs(kGp) == 0x4 (RDX only), expected 0x6.
// g++ -std=c++17 -I<repo> win64_indirect_vec_used_regs.cpp -o t -L<build> -lasmjit -Wl,-rpath,<build> && ./t
#include <asmjit/x86.h>
#include <cstdio>
using namespace asmjit;
int main() {
  int bad = 0;
  FuncSignature sig(CallConvId::kX64Windows);
  sig.set_ret(TypeId::kVoid);
  sig.add_arg(TypeId::kInt32x4);
  sig.add_arg(TypeId::kInt32);
  FuncDetail fd;
  Error e = fd.init(sig, Environment(Arch::kX64));
  printf("err=%u arg0: reg=%d id=%u indirect=%d  arg1: reg=%d id=%u  used_regs(gp)=%#x\n", unsigned(e), fd.arg(0).is_reg(), fd.arg(0).reg_id(),
         fd.arg(0).is_indirect(), fd.arg(1).is_reg(), fd.arg(1).reg_id(), unsigned(fd.used_regs(RegGroup::kGp)));
  bad += e != Error::kOk || !fd.arg(0).is_reg() || fd.used_regs(RegGroup::kGp) != ((1u << fd.arg(0).reg_id()) | (1u << fd.arg(1).reg_id()));
  printf("%s\n", bad ? "FAIL" : "PASS");
  return bad != 0;
}
