// C06 replay: AAPCS64 rounds the next stacked argument address up to the larger of 8 and the argument's natural alignment (C.14).
// a64 init_func_detail() aligns every stack argument of 8 bytes or more to 8: a 16-byte vector after one 4-byte stack argument lands at
// [8] instead of [16].
// g++ -std=c++17 -I/repo a64_vec_stack_align.cpp -o t -L/repo/_build -lasmjit -Wl,-rpath,/repo/_build && ./t
#include <asmjit/a64.h>
#include <cstdio>
using namespace asmjit;
int main() {
  FuncSignature sig; sig.set_call_conv_id(CallConvId::kCDecl); sig.set_ret(TypeId::kVoid);
  for (int i = 0; i < 9; i++) sig.add_arg(TypeId::kInt32);       // the ninth goes on the stack
  for (int i = 0; i < 9; i++) sig.add_arg(TypeId::kInt32x4);     // the ninth goes on the stack
  FuncDetail fd; Error e = fd.init(sig, Environment(Arch::kAArch64));
  const FuncValue& a = fd.arg(8); const FuncValue& v = fd.arg(17);
  printf("err=%u int32#9 [%d], int32x4#9 [%d], size %u\n", unsigned(e), a.stack_offset(), v.stack_offset(), fd.arg_stack_size());
  bool ok = e == Error::kOk && a.is_stack() && a.stack_offset() == 0 && v.is_stack() && v.stack_offset() == 16 && fd.arg_stack_size() == 32;
  printf("%s\n", ok ? "PASS" : "FAIL: a 16-byte stack argument is not 16-byte aligned");
  return ok ? 0 : 1;
}
