// C09 replay: when a block becomes completely full its search range collapses (_search_start = area size, _search_end = 0). Releasing
// the LAST span takes the "incremental" branch, which moves _search_start back but leaves _search_end at 0; a later release in the
// middle raises _search_end only to its own end. The free tail of the block is then outside the search range: the next allocation that
// would fit there maps a second block.
// g++ -std=c++17 -I/repo jitalloc_full_block_tail.cpp -o t -L/repo/_build -lasmjit -Wl,-rpath,/repo/_build && ./t
#include <asmjit/core.h>
#include <cstdio>
using namespace asmjit;
int main() {
  JitAllocator a;                    // default parameters: 64-byte units, the first block is 128 KiB
  // one block: 2048 units of 64 bytes, unit 0 is the initial padding -> 2047 usable units: 47 + 1000 + 1000
  JitAllocator::Span m, x, l, n;
  Error e0 = a.alloc(Out(m), 47 * 64), e1 = a.alloc(Out(x), 1000 * 64), e2 = a.alloc(Out(l), 1000 * 64);
  size_t blocks_full = a.statistics().block_count();
  a.release(l.rx());                 // the tail
  a.release(m.rx());                 // the head
  Error e3 = a.alloc(Out(n), 1000 * 64);
  JitAllocator::Statistics st = a.statistics();
  printf("allocs: %u %u %u, blocks when full: %zu | after releasing tail and head, alloc(1000 units)=%u blocks=%zu reserved=%zu (expected 1 block)\n",
         unsigned(e0), unsigned(e1), unsigned(e2), blocks_full, unsigned(e3), st.block_count(), st.reserved_size());
  bool ok = e0 == Error::kOk && e1 == Error::kOk && e2 == Error::kOk && blocks_full == 1 && e3 == Error::kOk && st.block_count() == 1;
  puts(ok ? "PASS" : "FAIL"); return ok ? 0 : 1;
}
