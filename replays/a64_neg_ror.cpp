// C02/C14 replay: a64 neg/negs share an encoding case with mvn; mvn (ORN, logical shifted register) accepts ROR, neg/negs (SUB/SUBS,
// add/subtract shifted register) do not - shift field 11 is reserved there - but the case bounds the shift type by ROR for all three.
// g++ -std=c++17 -I/repo a64_neg_ror.cpp -o t -L/repo/_build -lasmjit -Wl,-rpath,/repo/_build && ./t
#include <asmjit/a64.h>
#include <cstdio>
#include <cstring>
using namespace asmjit;
int main() {
  CodeHolder code; code.init(Environment(Arch::kAArch64));
  a64::Assembler a(&code);
  using namespace a64;
  Error e0 = a.mvn(x0, x1, ror(3));
  Error e1 = a.neg(x0, x1, asr(3));
  Error e2 = a.neg(x0, x1, ror(3));
  Error e3 = a.negs(w0, w1, ror(3));
  uint32_t w[4] = {0,0,0,0}; size_t n = code.text_section()->buffer_size(); memcpy(w, code.text_section()->data(), n < 16 ? n : 16);
  printf("mvn ror err=%u %08x | neg asr err=%u %08x | neg ror err=%u %08x | negs ror err=%u %08x (the last two must be rejected: reserved encoding)\n",
         unsigned(e0), w[0], unsigned(e1), w[1], unsigned(e2), w[2], unsigned(e3), w[3]);
  bool ok = e0 == Error::kOk && e1 == Error::kOk && e2 != Error::kOk && e3 != Error::kOk;
  puts(ok ? "PASS" : "FAIL"); return ok ? 0 : 1;
}
