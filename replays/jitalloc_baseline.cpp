// C09 replays (baseline observations of a seeding agent, confirmed here):
//  1. a block emptied by newest-first releases is never flagged empty (incremental branch), so it is not released under kImmediateRelease
//  2. reset(kSoft) with kFillUnusedMemory fills the *unused* ranges of the kept block and leaves the old code bytes in place
//  3. release() accepts a pointer into the middle of a span
// g++ -std=c++17 -I/repo jitalloc_baseline.cpp -o t -L/repo/_build -lasmjit -Wl,-rpath,/repo/_build && ./t
#include <asmjit/core.h>
#include <cstdio>
#include <cstring>
using namespace asmjit;
int main() {
  int fail = 0;
  { // 1
    JitAllocator::CreateParams p{}; p.options = JitAllocatorOptions::kImmediateRelease;
    JitAllocator a(&p); JitAllocator::Span s;
    a.alloc(Out(s), 64); a.release(s.rx());
    size_t n = a.statistics().block_count();
    printf("1. immediate release, alloc+release: block_count=%zu (expected 0)\n", n); if (n != 0) fail = 1;
  }
  { // 2
    JitAllocator::CreateParams p{}; p.options = JitAllocatorOptions::kFillUnusedMemory;
    JitAllocator a(&p); JitAllocator::Span s;
    a.alloc(Out(s), 256);
    a.write(s, [&](JitAllocator::Span& w) noexcept -> Error { memset(w.rw(), 0xAB, 256); return Error::kOk; });
    void* old = s.rx();
    a.reset(ResetPolicy::kSoft);
    JitAllocator::Span t; a.alloc(Out(t), 256);
    unsigned b = static_cast<uint8_t*>(t.rx())[0];
    printf("2. soft reset with fill: same address=%d first byte=%02X (expected the fill pattern, not AB)\n", int(t.rx() == old), b);
    if (t.rx() == old && b == 0xAB) fail = 1;
  }
  { // 3
    JitAllocator a; JitAllocator::Span s; a.alloc(Out(s), 256);
    Error e = a.release(static_cast<uint8_t*>(s.rx()) + 64);
    printf("3. release(span + 64): err=%u allocation_count=%zu (expected an error, count 1)\n", unsigned(e), a.statistics().allocation_count());
    if (e == Error::kOk) fail = 1;
  }
  puts(fail ? "FAIL" : "PASS"); return fail;
}
