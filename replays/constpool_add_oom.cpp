// C15 replay: ConstPool::add() advances `_size` / consumes a gap BEFORE it allocates the node; when that allocation fails the call
// returns kOutOfMemory, and the retry (memory available again) places the constant behind the hole: the pool differs from the pool
// of a failure-free run (size 24 instead of 16 for {u32, u64}).
// g++ -std=c++17 -I/repo constpool_add_oom.cpp -o t -L/repo/_build -lasmjit -Wl,-rpath,/repo/_build && ./t
#include <asmjit/core.h>
#include <cstdio>
#include <cstdlib>
using namespace asmjit;
static long g_fail_after = -1;
extern "C" void* __libc_malloc(size_t);
extern "C" void* malloc(size_t n) { if (g_fail_after == 0) return nullptr; if (g_fail_after > 0) g_fail_after--; return __libc_malloc(n); }
int main() {
  int fail = 0, seen = 0;
  for (size_t prefill = 0; prefill < 4096 && seen < 400; prefill += 8) {
    Arena arena(1024);
    ConstPool pool(arena);
    (void)arena.alloc_oneshot(prefill);         // position the arena so that a later node allocation needs a new block
    uint32_t a = 0xAAAAAAAAu; uint64_t b = 0xBBBBBBBBBBBBBBBBull; size_t oa = 0, ob = 0;
    if (pool.add(&a, 4, Out(oa)) != Error::kOk) continue;
    g_fail_after = 0;
    Error e1 = pool.add(&b, 8, Out(ob));
    g_fail_after = -1;
    if (e1 == Error::kOk) continue;
    seen++;
    Error e2 = pool.add(&b, 8, Out(ob));        // retry
    if (e2 != Error::kOk || ob != 8 || pool.size() != 16) printf("prefill=%zu first add(u64) err=%u retry err=%u offset=%zu pool size=%zu (failure-free run: offset 8, size 16)\n", prefill, unsigned(e1), unsigned(e2), ob, pool.size());
    if (e2 != Error::kOk || ob != 8 || pool.size() != 16) fail = 1;
  }
  if (!seen) { puts("no failing add produced"); return 2; }
  puts(fail ? "FAIL" : "PASS"); return fail;
}
