// C08 replay: BaseBuilder::serialize_to() hands op[0], op[1], op[2] of an instruction node to the assembler regardless of
// op_count(): operands that are not part of the instruction - dropped with set_op_count(), or never written because the node was
// made by new_inst_node() in recycled arena memory - are still encoded. "Editing the node list yields the code of the edited sequence."
// g++ -std=c++17 -I/repo builder_stale_operands.cpp -o t -L/repo/_build -lasmjit -Wl,-rpath,/repo/_build && ./t
#include <asmjit/x86.h>
#include <cstdio>
#include <cstring>
#include <vector>
using namespace asmjit;
static std::vector<uint8_t> bytes(CodeHolder& c) { auto& b = c.text_section()->buffer(); return std::vector<uint8_t>(b.data(), b.data() + b.size()); }
int main() {
  Environment env(Arch::kX64);
  std::vector<uint8_t> want;
  { CodeHolder code; code.init(env); x86::Assembler a(&code); a.imul(x86::eax, x86::ebx); want = bytes(code); }
  bool ok = true;
  {
    CodeHolder code; code.init(env); x86::Builder b(&code);
    b.imul(x86::eax, x86::ebx, Imm(3));
    b.cursor()->as<InstNode>()->set_op_count(2);                 // edit: drop the immediate -> `imul eax, ebx`
    Error e = b.finalize(); auto got = bytes(code);
    printf("set_op_count(2): err=%u bytes:", unsigned(e)); for (uint8_t v : got) printf(" %02X", v); printf("  (expected 0F AF C3)\n");
    ok &= e == Error::kOk && got == want;
  }
  {
    CodeHolder code; code.init(env); x86::Builder b(&code);
    b.imul(x86::eax, x86::ebx, Imm(3));
    code.reinit();                                               // recycles the arena: the next node reuses the same memory
    InstNode* n = nullptr; (void)b.new_inst_node(Out(n), x86::Inst::kIdImul, InstOptions::kNone, 2);
    n->set_op(0, x86::eax); n->set_op(1, x86::ebx); b.add_node(n);
    Error e = b.finalize(); auto got = bytes(code);
    printf("new_inst_node(2 ops) in recycled memory: err=%u bytes:", unsigned(e)); for (uint8_t v : got) printf(" %02X", v); printf("  (expected 0F AF C3)\n");
    ok &= e == Error::kOk && got == want;
  }
  puts(ok ? "PASS" : "FAIL"); return ok ? 0 : 1;
}
