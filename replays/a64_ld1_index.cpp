// C02/C14 replay: a64 ld1/st1 (post-index by register) never looks at the type of the index register: `ld1 {v0.16b}, [x1], w2`
// (and a vector register as index) is accepted and encoded exactly like `..., x2`.
// g++ -std=c++17 -I/repo a64_ld1_index.cpp -o t -L/repo/_build -lasmjit -Wl,-rpath,/repo/_build && ./t
#include <asmjit/a64.h>
#include <cstdio>
#include <cstring>
using namespace asmjit;
int main() {
  CodeHolder code; code.init(Environment(Arch::kAArch64));
  a64::Assembler a(&code);
  Error e0 = a.ld1(a64::v0.b16(), a64::ptr_post(a64::x1, a64::x2));
  Error e1 = a.ld1(a64::v0.b16(), a64::ptr_post(a64::x1, a64::w2));
  a64::Mem mv = a64::ptr_post(a64::x1, a64::x2); mv.set_index(a64::v2);
  Error e2 = a.ld1(a64::v0.b16(), mv);
  uint32_t w[3] = {0,0,0}; size_t n = code.text_section()->buffer_size(); memcpy(w, code.text_section()->data(), n < 12 ? n : 12);
  printf("ld1 {v0.16b},[x1],x2 err=%u %08x | [x1],w2 err=%u %08x | [x1],v2 err=%u %08x (the last two must be rejected)\n", unsigned(e0), w[0], unsigned(e1), w[1], unsigned(e2), w[2]);
  bool ok = e0 == Error::kOk && e1 != Error::kOk && e2 != Error::kOk;
  puts(ok ? "PASS" : "FAIL"); return ok ? 0 : 1;
}
