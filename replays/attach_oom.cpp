// C15 replay: an attach() that fails with out-of-memory leaves the emitter half attached (_code set, not in the list):
// the next attach() reports success without attaching.
// g++ -std=c++17 -I/repo attach_oom.cpp -o t -L/repo/_build -lasmjit -Wl,-rpath,/repo/_build && ./t
#include <asmjit/x86.h>
#include <cstdio>
#include <cstdlib>
using namespace asmjit;
static long g_fail_after = -1;
extern "C" void* __libc_malloc(size_t);
extern "C" void* malloc(size_t n) { if (g_fail_after == 0) return nullptr; if (g_fail_after > 0) g_fail_after--; return __libc_malloc(n); }
int main() {
  int fail = 0, seen_oom = 0;
  for (long k = 0; k < 8; k++) {
    CodeHolder code; code.init(Environment(Arch::kX64));
    x86::Builder b;
    g_fail_after = k;
    Error e1 = code.attach(&b);
    g_fail_after = -1;
    if (e1 == Error::kOk) continue;
    seen_oom++;
    bool attached_flag = b.code() != nullptr;
    Error e2 = code.attach(&b);                 // memory is available again
    size_t n = 0; for (BaseEmitter* e = code.attached_first(); e; e = e->_attached_next) n++;
    printf("k=%ld first attach err=%u  code()!=null after failure: %d  second attach err=%u  emitters in list: %zu\n", k, unsigned(e1), int(attached_flag), unsigned(e2), n);
    if (attached_flag || (e2 == Error::kOk && n != 1)) fail = 1;
  }
  if (!seen_oom) { puts("no failing attach produced"); return 2; }
  puts(fail ? "FAIL" : "PASS"); return fail;
}
