// C03/C17 replay: CodeHolder::resolve_cross_section_fixups() returns kOk when write_offset() refuses a displacement (only an address
// overflow sets an error), while bind_label() reports kInvalidDisplacement in the same situation. JitRuntime::add() therefore returns
// kOk and installs `EB 00` for a short jump whose target section is 1000 bytes away.
// g++ -std=c++17 -I/repo resolve_fixups_unreported.cpp -o t -L/repo/_build -lasmjit -Wl,-rpath,/repo/_build && ./t
#include <asmjit/x86.h>
#include <cstdio>
using namespace asmjit;
int main() {
  CodeHolder code; code.init(Environment(Arch::kX64));
  x86::Assembler a(&code);
  Section* far_sec = nullptr;
  code.new_section(Out(far_sec), ".far", SIZE_MAX, SectionFlags::kExecutable, 1);
  Label L = a.new_label();
  a.short_().jmp(L);                       // rel8, target in another section
  for (int i = 0; i < 1000; i++) a.nop();  // pushes the next section out of rel8 range
  a.section(far_sec);
  a.bind(L);
  a.ret();
  Error e1 = code.flatten();
  Error e2 = code.resolve_cross_section_fixups();
  printf("flatten=%u resolve=%u unresolved=%zu byte1=%02X\n", unsigned(e1), unsigned(e2), code.unresolved_fixup_count(), code.text_section()->buffer().data()[1]);
  bool ok = e1 == Error::kOk && e2 != Error::kOk && code.unresolved_fixup_count() == 1;
  printf("%s\n", ok ? "PASS" : "FAIL: an unrepresentable cross-section displacement was not reported");
  return ok ? 0 : 1;
}
