// C14/C13 replay: under strict validation the x86 validator checks a register operand's physical id against the mode's allowed_reg_mask,
// but the base / index id of a memory operand only against 32 and the {k} extra register only against 0:
//   mov eax, [gpq(20)]        -> accepted, encoded as [rsp] (8B 04 24)
//   mov eax, [rax + gpq(20)*2] -> accepted, index dropped
//   {k9} vaddps zmm0, zmm1, zmm2 -> accepted, bit 3 of the id lands in EVEX.V' (vaddps zmm0{k1}, zmm17, zmm2)
// g++ -std=c++17 -I/repo x86_validator_phys_ids.cpp -o t -L/repo/_build -lasmjit -Wl,-rpath,/repo/_build && ./t
#include <asmjit/x86.h>
#include <cstdio>
using namespace asmjit;
using namespace asmjit::x86;
static int bad = 0;
template<typename F> static void expect(const char* what, bool accept, F&& f) {
  CodeHolder code; code.init(Environment(Arch::kX64)); Assembler a(&code);
  a.add_diagnostic_options(DiagnosticOptions::kValidateAssembler);
  Error e = f(a);
  auto& b = code.text_section()->buffer();
  bool ok = accept ? e == Error::kOk : (e != Error::kOk && b.size() == 0);
  printf("%-36s err=%-3u bytes=", what, unsigned(e));
  for (size_t i = 0; i < b.size(); i++) printf("%02X ", b.data()[i]);
  printf("%s\n", ok ? "ok" : "WRONG");
  bad += !ok;
}
int main() {
  expect("mov eax, [gpq(20)]", false, [](Assembler& a) { return a.mov(eax, ptr(Gp::make_r64(20))); });
  expect("mov eax, [rax + gpq(20)*2]", false, [](Assembler& a) { return a.mov(eax, ptr(rax, Gp::make_r64(20), 1)); });
  expect("{k9} vaddps zmm0, zmm1, zmm2", false, [](Assembler& a) { return a.k(KReg(9)).vaddps(zmm0, zmm1, zmm2); });
  expect("mov eax, [r15 + r14*2]", true, [](Assembler& a) { return a.mov(eax, ptr(r15, r14, 1)); });
  expect("{k7} vaddps zmm0, zmm1, zmm2", true, [](Assembler& a) { return a.k(k7).vaddps(zmm0, zmm1, zmm2); });
  expect("vpgatherdd xmm1{k1}, [rax+xmm31]", true, [](Assembler& a) { return a.k(k1).vpgatherdd(xmm1, ptr(rax, xmm31)); });
  printf("%s\n", bad ? "FAIL" : "PASS");
  return bad ? 1 : 0;
}
