// C15 replay: Compiler::new_const(): the pool node is created straight into the `_const_pools[scope]` cache; when the second step
// of the creator (register_label_node) runs out of memory the call fails but the cache keeps the node, which has no label.
// The retry (memory available again) succeeds and returns a memory operand based on label id 0 - the first label of the user (or an invalid id when there is none).
// g++ -std=c++17 -I/repo constpool_node_oom.cpp -o t -L/repo/_build -lasmjit -Wl,-rpath,/repo/_build && ./t
#include <asmjit/x86.h>
#include <cstdio>
#include <cstdlib>
using namespace asmjit;
static long g_fail_after = -1;
extern "C" void* __libc_malloc(size_t);
extern "C" void* malloc(size_t n) { if (g_fail_after == 0) return nullptr; if (g_fail_after > 0) g_fail_after--; return __libc_malloc(n); }
int main() {
  int fail = 0, seen_oom = 0;
  for (long k = 0; k < 2000; k++) {
    CodeHolder code; code.init(Environment(Arch::kX64));
    x86::Compiler cc(&code);
    // fill the builder arena / label vectors so that the next growth needs malloc
    for (long i = 0; i < k; i++) (void)cc.new_label();
    uint64_t v = 0x1122334455667788ull;
    x86::Mem m;
    g_fail_after = 0;
    Error e1 = cc._new_const(Out<BaseMem>(m), ConstPoolScope::kGlobal, &v, 8);
    g_fail_after = -1;
    if (e1 == Error::kOk) continue;
    seen_oom++;
    x86::Mem m2;
    Error e2 = cc._new_const(Out<BaseMem>(m2), ConstPoolScope::kGlobal, &v, 8);      // retry, memory is back
    bool label_ok = e2 != Error::kOk || (code.is_label_valid(m2.base_id()) && m2.base_id() >= uint32_t(k));   // a label of its own, not one of the k user labels
    if (!label_ok || seen_oom <= 3) printf("labels=%ld first err=%u retry err=%u base label id=%u valid=%d\n", k, unsigned(e1), unsigned(e2), m2.base_id(), int(label_ok));
    if (!label_ok) fail = 1;
  }
  if (!seen_oom) { puts("no failing call produced"); return 2; }
  puts(fail ? "FAIL" : "PASS"); return fail;
}
