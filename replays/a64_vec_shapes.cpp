// C02/C14 replay: AdvSIMD element shapes that do not exist are accepted because the row's kVO_* class is too wide:
//  sqdmlal/sqdmlsl/sqdmull (and the `2` forms) accept B elements (size field 00 is reserved for them),
//  addp (3 operands) accepts the scalar D / .1D shape (size:Q = 11:0 plus the scalar bit - an unallocated encoding).
// g++ -std=c++17 -I/repo a64_vec_shapes.cpp -o t -L/repo/_build -lasmjit -Wl,-rpath,/repo/_build && ./t
#include <asmjit/a64.h>
#include <cstdio>
#include <cstring>
using namespace asmjit;
int main() {
  CodeHolder code; code.init(Environment(Arch::kAArch64));
  a64::Assembler a(&code);
  using namespace a64;
  Error g0 = a.sqdmlal(v0.s4(), v1.h4(), v2.h4());
  Error g1 = a.sqdmlal2(v0.s4(), v1.h8(), v2.h8());
  Error g2 = a.addp(v0.d2(), v1.d2(), v2.d2());
  Error g3 = a.sqdmull(s0, h1, h2);
  Error r0 = a.sqdmlal(v0.h8(), v1.b8(), v2.b8());
  Error r1 = a.sqdmlal2(v0.h8(), v1.b16(), v2.b16());
  Error r2 = a.sqdmull(v0.h8(), v1.b8(), v2.b8());
  Error r3 = a.sqdmlsl(h0, b1, b2);
  Error r4 = a.addp(d0, d1, d2);
  printf("valid: %u %u %u %u | sqdmlal .8b=%u sqdmlal2 .16b=%u sqdmull .8b=%u sqdmlsl h,b,b=%u addp d0,d1,d2=%u (all five must be rejected)\n",
         unsigned(g0), unsigned(g1), unsigned(g2), unsigned(g3), unsigned(r0), unsigned(r1), unsigned(r2), unsigned(r3), unsigned(r4));
  bool ok = g0 == Error::kOk && g1 == Error::kOk && g2 == Error::kOk && g3 == Error::kOk &&
            r0 != Error::kOk && r1 != Error::kOk && r2 != Error::kOk && r3 != Error::kOk && r4 != Error::kOk;
  puts(ok ? "PASS" : "FAIL"); return ok ? 0 : 1;
}
