// C12 replay: vp2intersectd writes a pair of consecutive mask registers (k, k+1); the RW info must report the run.
// g++ -std=c++17 -I/repo x86_consecutive_lead.cpp -o t -L/repo/_build -lasmjit -Wl,-rpath,/repo/_build && ./t
#include <asmjit/x86.h>
#include <cstdio>
using namespace asmjit;
int main() {
  int fail = 0;
  for (InstId id : { InstId(x86::Inst::kIdVp2intersectd), InstId(x86::Inst::kIdVp2intersectq) }) {
    Operand ops[] = { x86::k2, x86::k3, x86::zmm0, x86::zmm1 };
    InstRWInfo rw;
    Error e = InstAPI::query_rw_info(Arch::kX64, BaseInst(id), ops, 4, &rw);
    printf("err=%u op0.consecutive_lead_count=%u op1.is_consecutive=%d\n", unsigned(e), rw.operand(0).consecutive_lead_count(),
           int(rw.operand(1).has_op_flag(OpRWFlags::kConsecutive)));
    if (e != Error::kOk || rw.operand(0).consecutive_lead_count() != 2 || !rw.operand(1).has_op_flag(OpRWFlags::kConsecutive)) fail = 1;
  }
  printf(fail ? "FAIL\n" : "PASS\n");
  return fail;
}
