// C02/C14 replay: a64 scvtf/ucvtf/fcvtzs/fcvtzu (fixed-point, GP <-> FP): the plain form rejects FP registers other than H/S/D
// (`type > 2`), the fixed-point branch of the same case computes the same `type` and never tests it: `scvtf q0, x1, #3` and
// `scvtf b0, x1, #3` are accepted and encoded with a reserved/aliased type field.
// g++ -std=c++17 -I/repo a64_scvtf_fixed.cpp -o t -L/repo/_build -lasmjit -Wl,-rpath,/repo/_build && ./t
#include <asmjit/a64.h>
#include <cstdio>
#include <cstring>
using namespace asmjit;
int main() {
  CodeHolder code; code.init(Environment(Arch::kAArch64));
  a64::Assembler a(&code);
  using namespace a64;
  Error p0 = a.scvtf(d0, x1);
  Error p1 = a.scvtf(q0, x1);                 // plain form: rejected
  Error f0 = a.scvtf(d0, x1, Imm(3));
  Error f1 = a.scvtf(q0, x1, Imm(3));         // fixed-point form: must be rejected as well
  Error f2 = a.scvtf(b0, x1, Imm(3));
  Error f3 = a.fcvtzs(x1, q0, Imm(3));
  printf("scvtf d0,x1=%u scvtf q0,x1=%u | fixed-point: d0=%u q0=%u b0=%u fcvtzs x1,q0,#3=%u (q0/b0 forms must be rejected)\n",
         unsigned(p0), unsigned(p1), unsigned(f0), unsigned(f1), unsigned(f2), unsigned(f3));
  bool ok = p0 == Error::kOk && p1 != Error::kOk && f0 == Error::kOk && f1 != Error::kOk && f2 != Error::kOk && f3 != Error::kOk;
  puts(ok ? "PASS" : "FAIL"); return ok ? 0 : 1;
}
