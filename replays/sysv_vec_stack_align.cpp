// C06 replay: System V x86-64: __m128 / __m256 arguments passed on the stack are aligned to their size; init_func_detail() places
// them at the next free offset: after one 8-byte stack argument a __m128 lands at [8] instead of [16].
// g++ -std=c++17 -I/repo sysv_vec_stack_align.cpp -o t -L/repo/_build -lasmjit -Wl,-rpath,/repo/_build && ./t
#include <asmjit/x86.h>
#include <cstdio>
using namespace asmjit;
int main() {
  FuncSignature sig; sig.set_call_conv_id(CallConvId::kX64SystemV); sig.set_ret(TypeId::kVoid);
  for (int i = 0; i < 7; i++) sig.add_arg(TypeId::kInt64);        // the seventh goes on the stack
  for (int i = 0; i < 8; i++) sig.add_arg(TypeId::kFloat32);      // xmm0..7
  sig.add_arg(TypeId::kInt32x4);                                  // on the stack
  FuncDetail fd; Error e = fd.init(sig, Environment(Arch::kX64));
  printf("err=%u int64#7 [%d], int32x4 [%d], size %u\n", unsigned(e), fd.arg(6).stack_offset(), fd.arg(15).stack_offset(), fd.arg_stack_size());
  bool ok = e == Error::kOk && fd.arg(6).stack_offset() == 0 && fd.arg(15).is_stack() && fd.arg(15).stack_offset() == 16 && fd.arg_stack_size() == 32;
  printf("%s\n", ok ? "PASS" : "FAIL: a 16-byte stack argument is not 16-byte aligned");
  return ok ? 0 : 1;
}
