#include <asmjit/a64.h>
#include <cstdio>
using namespace asmjit;
template<typename F> static void t(const char* what, F&& fn) {
  CodeHolder code; code.init(Environment(Arch::kAArch64)); a64::Assembler a(&code);
  a.add_diagnostic_options(DiagnosticOptions::kValidateAssembler);
  Error e = fn(a);
  uint32_t w = (e == Error::kOk && code.text_section()->buffer_size() >= 4) ? ((uint32_t*)code.text_section()->data())[0] : 0;
  printf("%-28s err=%-3u word=%08x\n", what, unsigned(e), w);
}
int main() {
  using namespace a64;
  t("rev32 w0, w1", [](Assembler& a) { return a.rev32(w0, w1); });
  t("rev32 x0, x1", [](Assembler& a) { return a.rev32(x0, x1); });
  t("rev64 w0, w1", [](Assembler& a) { return a.rev64(w0, w1); });
  t("rev64 x0, x1", [](Assembler& a) { return a.rev64(x0, x1); });
  t("rev w0, w1", [](Assembler& a) { return a.rev(w0, w1); });
  t("stlxr w0, x1, [x2]", [](Assembler& a) { return a.stlxr(w0, x1, ptr(x2)); });
  t("stlxr w0, w1, [x2]", [](Assembler& a) { return a.stlxr(w0, w1, ptr(x2)); });
  t("stlxr x0, x1, [x2]", [](Assembler& a) { return a.stlxr(x0, x1, ptr(x2)); });
  t("stxr w0, x1, [x2]", [](Assembler& a) { return a.stxr(w0, x1, ptr(x2)); });
  t("stxr x0, x1, [x2]", [](Assembler& a) { return a.stxr(x0, x1, ptr(x2)); });
  t("crc32x w0, w1, x2", [](Assembler& a) { return a.crc32x(w0, w1, x2); });
  t("crc32x x0, x1, x2", [](Assembler& a) { return a.crc32x(x0, x1, x2); });
  return 0;
}
