// C01/C03 replay (Arch::kX86): `mov eax, [L + si + 8]` - a label base with a 16-bit index - was encoded as `67 8B 44 08`
// (= mov eax, [si+8]): the label silently disappeared (no fixup, no relocation).  [L] alone with a 16-bit address is refused.
// g++ -std=c++17 -I/repo x86_label_base_16bit_index.cpp -o t -L/repo/_build -lasmjit -Wl,-rpath,/repo/_build && ./t
#include <asmjit/x86.h>
#include <cstdio>
using namespace asmjit;
using namespace asmjit::x86;
int main() {
  int bad = 0;
  CodeHolder code; code.init(Environment(Arch::kX86)); Assembler a(&code);
  Label L = a.new_label();
  Error e = a.mov(eax, ptr(L, si, 0, 8));
  auto& b = code.text_section()->buffer();
  printf("mov eax, [L + si + 8]: err=%u bytes=", unsigned(e));
  for (size_t i = 0; i < b.size(); i++) printf("%02X ", b.data()[i]);
  printf("\n");
  bad += e == Error::kOk;
  size_t n = b.size();
  e = a.mov(eax, ptr(L, esi, 0, 8));
  printf("mov eax, [L + esi + 8]: err=%u size=%zu\n", unsigned(e), b.size() - n);
  bad += e != Error::kOk;
  e = a.mov(eax, ptr(bx, si, 0, 8));
  printf("mov eax, [bx + si + 8]: err=%u\n", unsigned(e));
  bad += e != Error::kOk;
  printf("%s\n", bad ? "FAIL" : "PASS");
  return bad != 0;
}
