// C01/C14 replay: 16-bit addressing cannot be encoded in 64-bit mode (67h selects 32-bit addressing there).  The non-validating x64
// assembler accepted 16-bit base / index registers and encoded them through the 16-bit ModRM table without any prefix:
//   mov eax, [bx+si] -> 8B 00 (= mov eax, [rax]),  mov eax, [bx] -> 8B 07 (= [rdi]),  lods al, [si] -> AC (= [rsi])
// The validator refuses them (kInvalidAddress); in 32-bit mode they are legal (67 8B 00).
// g++ -std=c++17 -I<repo> x64_addr16_refused.cpp -o t -L<build> -lasmjit -Wl,-rpath,<build> && ./t
#include <asmjit/x86.h>
#include <cstdio>
using namespace asmjit;
using namespace asmjit::x86;
static int bad = 0;
template<typename F> static void t(const char* what, Arch arch, const char* expect, F&& f) {
  CodeHolder code; code.init(Environment(arch)); Assembler a(&code);
  Error e = f(a);
  auto& b = code.text_section()->buffer();
  char got[64] = ""; for (size_t i = 0; i < b.size(); i++) sprintf(got + strlen(got), "%02X", b.data()[i]);
  bool ok = expect ? (e == Error::kOk && strcmp(got, expect) == 0) : (e != Error::kOk && b.size() == 0);
  printf("%-30s err=%-3u bytes=%-10s %s\n", what, unsigned(e), got, ok ? "ok" : "WRONG");
  bad += !ok;
}
int main() {
  t("x64 mov eax, [bx+si]", Arch::kX64, nullptr, [](Assembler& a) { return a.mov(eax, ptr(bx, si)); });
  t("x64 mov eax, [bx]", Arch::kX64, nullptr, [](Assembler& a) { return a.mov(eax, ptr(bx)); });
  t("x64 mov eax, [si+4]", Arch::kX64, nullptr, [](Assembler& a) { return a.mov(eax, ptr(si, 4)); });
  t("x64 lods al, [si]", Arch::kX64, nullptr, [](Assembler& a) { return a.lods(al, byte_ptr(si)); });
  t("x64 vaddps xmm0,xmm1,[bx]", Arch::kX64, nullptr, [](Assembler& a) { return a.vaddps(xmm0, xmm1, ptr(bx)); });
  t("x64 mov eax, [ebx]", Arch::kX64, "678B03", [](Assembler& a) { return a.mov(eax, ptr(ebx)); });
  t("x64 mov eax, [rbx]", Arch::kX64, "8B03", [](Assembler& a) { return a.mov(eax, ptr(rbx)); });
  t("x86 mov eax, [bx+si]", Arch::kX86, "678B00", [](Assembler& a) { return a.mov(eax, ptr(bx, si)); });
  t("x86 lods al, [si]", Arch::kX86, "67AC", [](Assembler& a) { return a.lods(al, byte_ptr(si)); });
  printf("%s\n", bad ? "FAIL" : "PASS");
  return bad != 0;
}
