// C06 replay: x86func.cpp, Win64 branch: the register that carries the address of an indirectly passed vector argument is read as
// `cc._passed_order[RegGroup::kGp].id[arg_index]` without the `arg_index < kMaxRegArgsPerGroup` test its two siblings have. For
// argument indexes 16..31 this reads past `uint8_t id[16]` - into the vector group's order - so vector arguments 16..19 are
// reported as passed in RAX/RCX/RDX/RBX (xmm ids 0..3 read as GP ids) instead of on the stack.
// g++ -std=c++17 -I/repo win64_indirect_vec_arg_index.cpp -o t -L/repo/_build -lasmjit -Wl,-rpath,/repo/_build && ./t
#include <asmjit/x86.h>
#include <cstdio>
using namespace asmjit;
int main() {
  FuncSignature sig; sig.set_call_conv_id(CallConvId::kX64Windows); sig.set_ret(TypeId::kVoid);
  for (int i = 0; i < 16; i++) sig.add_arg(TypeId::kInt64);
  for (int i = 0; i < 4; i++) sig.add_arg(TypeId::kInt32x4);          // arguments 16..19: __m128 by reference
  FuncDetail fd; Error e = fd.init(sig, Environment(Arch::kX64));
  bool ok = e == Error::kOk;
  for (uint32_t i = 16; i < 20 && ok; i++) {
    const FuncValue& v = fd.arg(i);
    printf("arg %u: %s id/offset=%d indirect=%d\n", i, v.is_reg() ? "REG" : "stack", v.is_reg() ? int(v.reg_id()) : v.stack_offset(), int(v.is_indirect()));
    ok &= v.is_stack() && v.is_indirect();
  }
  printf("%s\n", ok ? "PASS" : "FAIL: an argument beyond the register-passed ones was assigned a register read past the order table");
  return ok ? 0 : 1;
}
