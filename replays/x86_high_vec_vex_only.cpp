// C01/C13 replay: with strict validation on, vector registers 16..31 are accepted for instruction forms that have no EVEX encoding.
// The encoder then switches to the EVEX prefix with the VEX opcode, which is another instruction (vmaskmovps -> vscalefps,
// vmpsadbw -> vdbpsadbw, vpcmpeqb xmm17 -> writes k1) or no instruction at all; the is4 register of vblendvps is truncated to 4 bits.
// g++ -std=c++17 -I/repo x86_high_vec_vex_only.cpp -o t -L/repo/_build -lasmjit -Wl,-rpath,/repo/_build && ./t
#include <asmjit/x86.h>
#include <cstdio>
using namespace asmjit;
using namespace asmjit::x86;
static int bad = 0;
template<typename F> static void expect(const char* what, bool accept, F&& f) {
  CodeHolder code; code.init(Environment(Arch::kX64)); Assembler a(&code);
  a.add_diagnostic_options(DiagnosticOptions::kValidateAssembler);
  Error e = f(a);
  auto& b = code.text_section()->buffer();
  bool ok = accept ? (e == Error::kOk && b.size() > 0) : (e != Error::kOk && b.size() == 0);
  printf("%-44s err=%-3u bytes=", what, unsigned(e));
  for (size_t i = 0; i < b.size(); i++) printf("%02X ", b.data()[i]);
  printf("%s\n", ok ? "ok" : (accept ? "WRONG (refused)" : "WRONG (accepted)"));
  bad += !ok;
}
int main() {
  // forms without EVEX encoding: must be refused
  expect("vtestps xmm17, xmm2", false, [](Assembler& a) { return a.vtestps(xmm17, xmm2); });
  expect("vmaskmovps xmm17, xmm10, [r11]", false, [](Assembler& a) { return a.vmaskmovps(xmm17, xmm10, xmmword_ptr(r11)); });
  expect("vmpsadbw xmm17, xmm2, xmm3, 1", false, [](Assembler& a) { return a.vmpsadbw(xmm17, xmm2, xmm3, 1); });
  expect("vpcmpeqb xmm17, xmm2, xmm3", false, [](Assembler& a) { return a.vpcmpeqb(xmm17, xmm2, xmm3); });
  expect("vcmpps xmm1, xmm2, xmm19, 1", false, [](Assembler& a) { return a.vcmpps(xmm1, xmm2, xmm19, 1); });
  expect("vblendvps xmm1, xmm2, xmm3, xmm20", false, [](Assembler& a) { return a.vblendvps(xmm1, xmm2, xmm3, xmm20); });
  expect("vpgatherdd xmm1, [rax+xmm17], xmm3", false, [](Assembler& a) { return a.vpgatherdd(xmm1, ptr(rax, xmm17), xmm3); });
  expect("vpgatherdd xmm17, [rax+xmm7], xmm3", false, [](Assembler& a) { return a.vpgatherdd(xmm17, ptr(rax, xmm7), xmm3); });
  expect("vfmaddps xmm1, xmm2, xmm3, xmm20", false, [](Assembler& a) { return a.vfmaddps(xmm1, xmm2, xmm3, xmm20); });
  // forms with EVEX encoding: must stay accepted
  expect("vaddps xmm17, xmm2, xmm31", true, [](Assembler& a) { return a.vaddps(xmm17, xmm2, xmm31); });
  expect("vpcmpeqb k1, xmm17, xmm3", true, [](Assembler& a) { return a.vpcmpeqb(k1, xmm17, xmm3); });
  expect("vcmpps k2, zmm18, zmm19, 1", true, [](Assembler& a) { return a.vcmpps(k2, zmm18, zmm19, 1); });
  expect("{k1} vpgatherdd xmm17, [rax+xmm18]", true, [](Assembler& a) { return a.k(k1).vpgatherdd(xmm17, ptr(rax, xmm18)); });
  expect("vpcmpeqb xmm1, xmm2, xmm3", true, [](Assembler& a) { return a.vpcmpeqb(xmm1, xmm2, xmm3); });
  expect("vtestps xmm15, xmm2", true, [](Assembler& a) { return a.vtestps(xmm15, xmm2); });
  expect("vpgatherdd xmm1, [rax+xmm15], xmm3", true, [](Assembler& a) { return a.vpgatherdd(xmm1, ptr(rax, xmm15), xmm3); });
  printf("%s\n", bad ? "FAIL" : "PASS");
  return bad ? 1 : 0;
}
