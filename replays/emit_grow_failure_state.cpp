// C14/C15 replay: when the code buffer cannot grow, x86::Assembler::_emit() lets CodeWriter::ensure_space() report the error while the
// one-shot state of the instruction ({k}{z}, options, comment) is still armed, and then reports it again through `Failed:`. A handler
// that throws (errorhandler.h allows it) leaves the stale state for the next instruction; a counting handler is called twice.
// g++ -std=c++17 -I/repo emit_grow_failure_state.cpp -o t -L/repo/_build -lasmjit -Wl,-rpath,/repo/_build && ./t
#include <asmjit/x86.h>
#include <cstdio>
#include <stdexcept>
using namespace asmjit;
struct Counting : ErrorHandler { int n = 0; void handle_error(Error, const char*, BaseEmitter*) override { n++; } };
struct Throwing : ErrorHandler { void handle_error(Error, const char* m, BaseEmitter*) override { throw std::runtime_error(m); } };
int main() {
  bool ok = true;
  uint8_t fixed[8];                                    // a fixed buffer that cannot grow: the first instruction needs 16 bytes
  {
    CodeHolder code; code.init(Environment(Arch::kX64));
    // external, fixed buffer for .text
    CodeBuffer& buf = code.text_section()->buffer();
    buf._data = fixed; buf._size = 0; buf._capacity = sizeof(fixed); buf._flags = CodeBufferFlags::kIsExternal | CodeBufferFlags::kIsFixed;
    Counting h; code.set_error_handler(&h);
    x86::Assembler a(&code);
    Error e = a.k(x86::k1).z().vaddps(x86::zmm0, x86::zmm1, x86::zmm2);
    printf("counting handler: err=%u calls=%d options after=%x\n", unsigned(e), h.n, unsigned(a.inst_options()));
    ok &= e != Error::kOk && h.n == 1 && a.inst_options() == InstOptions::kNone && !a.extra_reg().is_reg();
  }
  {
    CodeHolder code; code.init(Environment(Arch::kX64));
    CodeBuffer& buf = code.text_section()->buffer();
    buf._data = fixed; buf._size = 0; buf._capacity = sizeof(fixed); buf._flags = CodeBufferFlags::kIsExternal | CodeBufferFlags::kIsFixed;
    Throwing h; code.set_error_handler(&h);
    x86::Assembler a(&code);
    bool thrown = false;
    try { (void)a.k(x86::k1).z().vaddps(x86::zmm0, x86::zmm1, x86::zmm2); } catch (const std::exception&) { thrown = true; }
    printf("throwing handler: thrown=%d options after=%x extra_reg=%d\n", int(thrown), unsigned(a.inst_options()), int(a.extra_reg().is_reg()));
    ok &= thrown && a.inst_options() == InstOptions::kNone && !a.extra_reg().is_reg();
  }
  printf("%s\n", ok ? "PASS" : "FAIL: the handler ran before the one-shot state was cleared (or twice)");
  return ok ? 0 : 1;
}
