// Baseline probe: CodeHolder::reinit() keeps the base address stored by relocate_to_base() / JitRuntime::add().
#include <asmjit/x86.h>
#include <stdio.h>
#include <string.h>
#include <stdint.h>
using namespace asmjit;

int main() {
  Environment env(Arch::kX64);
  CodeHolder code;
  code.init(env);
  x86::Assembler a(&code);

  const uint64_t kTarget = 0x10000000u;
  const uint64_t kBase1  = 0x10100000u;
  const uint64_t kBase2  = 0x10200000u;
  int failed = 0;

  for (int i = 0; i < 2; i++) {
    uint64_t base = i == 0 ? kBase1 : kBase2;
    if (i) code.reinit();
    printf("round %d: has_base_address=%d base=%llx relocs(before)=%zu\n", i, int(code.has_base_address()), (unsigned long long)code.base_address(), code.reloc_entries().size());
    a.call(Imm(kTarget));
    a.ret();
    printf("  relocs(after emit)=%zu\n", code.reloc_entries().size());
    code.flatten();
    code.resolve_cross_section_fixups();
    Error e = code.relocate_to_base(base);
    if (e != Error::kOk) { printf("  relocate failed %u\n", unsigned(e)); return 2; }
    const uint8_t* p = code.text_section()->data();
    size_t n = code.text_section()->buffer_size();
    // find E8
    size_t k = 0; while (k < n && p[k] != 0xE8) k++;
    int32_t rel; memcpy(&rel, p + k + 1, 4);
    uint64_t dest = base + k + 5 + int64_t(rel);
    printf("  call at +%zu rel=%d -> %llx (%s)\n", k, rel, (unsigned long long)dest, dest == kTarget ? "ok" : "WRONG");
    if (dest != kTarget) failed = 1;
  }
  return failed;
}
