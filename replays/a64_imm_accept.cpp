// C14/C02 replays: AArch64 operands that cannot be encoded must be refused.
// g++ -std=c++17 -I/repo a64_imm_accept.cpp -o t -L/repo/_build -lasmjit -Wl,-rpath,/repo/_build && ./t
#include <asmjit/a64.h>
#include <cstdio>
using namespace asmjit;
template<typename F> static int refused(const char* what, F&& fn) {
  CodeHolder code; code.init(Environment(Arch::kAArch64)); a64::Assembler a(&code);
  a.add_diagnostic_options(DiagnosticOptions::kValidateAssembler);
  Label L = a.new_label(); a.bind(L);
  Error e = fn(a, L);
  uint32_t w = (e == Error::kOk && code.text_section()->buffer_size() >= 4) ? ((uint32_t*)code.text_section()->data())[0] : 0;
  printf("%-34s err=%-3u word=%08x %s\n", what, unsigned(e), w, e != Error::kOk ? "refused (ok)" : "ACCEPTED");
  return e == Error::kOk;
}
int main() {
  int f = 0;
  f |= refused("tbz x0, #64, L", [](a64::Assembler& a, Label L) { return a.tbz(a64::x0, Imm(64), L); });
  f |= refused("tbz w0, #32, L", [](a64::Assembler& a, Label L) { return a.tbz(a64::w0, Imm(32), L); });
  f |= refused("bfi x0, x1, #60, #10", [](a64::Assembler& a, Label L) { return a.bfi(a64::x0, a64::x1, Imm(60), Imm(10)); });
  f |= refused("ubfx w0, w1, #30, #10", [](a64::Assembler& a, Label L) { return a.ubfx(a64::w0, a64::w1, Imm(30), Imm(10)); });
  f |= refused("strh x0, [x1]", [](a64::Assembler& a, Label L) { return a.strh(a64::x0, a64::ptr(a64::x1)); });
  f |= refused("ldrb x0, [x1]", [](a64::Assembler& a, Label L) { return a.ldrb(a64::x0, a64::ptr(a64::x1)); });
  puts(f ? "FAIL" : "PASS"); return f;
}
