// C18 replay: ArenaBitSet::resize() growing from a size that is not a multiple of 64.  The class is internal (arenabitset_p.h, not
// exported), so this replay is compiled together with the library's own sources:
//   g++ -std=c++17 -DASMJIT_STATIC -I<repo> arena_bitset_resize_grow.cpp <repo>/asmjit/core/*.cpp <repo>/asmjit/support/*.cpp \
//       <repo>/asmjit/x86/*.cpp <repo>/asmjit/arm/*.cpp -lpthread -lrt -o t && ./t
// Before the fix: size 3 = 111, resize(10, false) -> word0 = 0x0 (old bits lost); 000, resize(10, true) -> 0x3ff (old bits set);
// 000, resize(100, true) -> word0 = 0xe000000000000000 (bits 3..60 of the new range not set).
#include <asmjit/core.h>
#include <asmjit/support/arenabitset_p.h>
#include <cstdio>
using namespace asmjit;
int main() {
  int bad = 0;
  Arena arena(4096);
  auto word0 = [&](bool old_value, size_t n, bool nv, unsigned long long expect) {
    ArenaBitSet bs; (void)bs.resize(arena, 3, old_value); (void)bs.resize(arena, n, nv);
    unsigned long long w = 0;
    for (size_t i = 0; i < 64 && i < n; i++) w |= (unsigned long long)(bs.bit_at(i)) << i;
    bool rest = true;
    for (size_t i = 64; i < n; i++) rest = rest && (bs.bit_at(i) == nv);
    printf("size 3 (%d%d%d) resize(%3zu,%d): word0=%#llx expected %#llx%s\n", old_value, old_value, old_value, n, nv, w, expect, rest ? "" : " (upper words wrong)");
    bad += w != expect || !rest;
  };
  word0(true, 10, false, 0x7);
  word0(false, 10, true, 0x3f8);
  word0(false, 100, true, 0xfffffffffffffff8ull);
  word0(true, 100, false, 0x7);
  word0(true, 64, true, ~0ull);
  word0(true, 5, true, 0x1f);
  printf("%s\n", bad ? "FAIL" : "PASS");
  return bad != 0;
}
