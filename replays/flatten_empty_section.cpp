// C10 replay: CodeHolder::flatten() stores the alignment padding in front of a section as the virtual size of the PREVIOUS section even
// when that one is empty. The empty section thereby becomes non-empty at an offset that violates its own alignment: code_size() then
// counts it again (20 instead of 12 = end of the last section) and a second flatten() moves the following section.
// g++ -std=c++17 -I/repo flatten_empty_section.cpp -o t -L/repo/_build -lasmjit -Wl,-rpath,/repo/_build && ./t
#include <asmjit/x86.h>
#include <cstdio>
using namespace asmjit;
int main() {
  CodeHolder code; code.init(Environment(Arch::kX64));
  x86::Assembler a(&code);
  a.nop(); a.nop(); a.ret();                                   // .text: 3 bytes
  Section *empty = nullptr, *data = nullptr;
  code.new_section(Out(empty), "empty", SIZE_MAX, SectionFlags::kNone, 8, 1);
  code.new_section(Out(data), "data", SIZE_MAX, SectionFlags::kNone, 8, 2);
  a.section(data); a.embed("\x11\x22\x33\x44", 4);
  Error e1 = code.flatten();
  uint64_t data_off1 = data->offset(); size_t size1 = code.code_size();
  uint64_t end1 = data->offset() + data->real_size();
  Error e2 = code.flatten();
  uint64_t data_off2 = data->offset(); size_t size2 = code.code_size();
  printf("flatten#1=%u data@%llu end=%llu code_size=%zu | flatten#2=%u data@%llu code_size=%zu | empty: off=%llu virt=%llu\n", unsigned(e1),
         (unsigned long long)data_off1, (unsigned long long)end1, size1, unsigned(e2), (unsigned long long)data_off2, size2,
         (unsigned long long)empty->offset(), (unsigned long long)empty->virtual_size());
  bool ok = e1 == Error::kOk && e2 == Error::kOk && size1 == end1 && data_off1 == data_off2 && size1 == size2 && empty->real_size() == 0;
  printf("%s\n", ok ? "PASS" : "FAIL: code_size() is not the end of the last section / flatten() is not idempotent");
  return ok ? 0 : 1;
}
