#include <asmjit/a64.h>
#include <cstdio>
using namespace asmjit;
int main() {
  int fail = 0;
  for (uint32_t cond = 14; cond <= 18; cond++) {
    CodeHolder code; code.init(Environment(Arch::kAArch64)); a64::Assembler a(&code);
    a.add_diagnostic_options(DiagnosticOptions::kValidateAssembler);
    Error e1 = a.emit(a64::Inst::kIdCinc, a64::x0, a64::x1, Imm(cond));
    uint32_t w1 = e1 == Error::kOk ? ((uint32_t*)code.text_section()->data())[0] : 0;
    Error e2 = a.emit(a64::Inst::kIdCset, a64::x0, Imm(cond));
    printf("cond=%u cinc: err=%u word=%08x   cset: err=%u\n", cond, unsigned(e1), w1, unsigned(e2));
    if (cond > 15 && e1 == Error::kOk) fail = 1;
  }
  puts(fail ? "FAIL" : "PASS"); return fail;
}
