// C15 replay: ConstPool::add() does not null-test the node allocated for a shared sub-constant.
// The heap is made to fail once the arena's first block exists; constants are added until the block is exhausted.
// g++ -std=c++17 -I/repo constpool_oom.cpp -o t -L/repo/_build -lasmjit -Wl,-rpath,/repo/_build && ./t
#include <asmjit/core.h>
#include <cstdio>
#include <cstdlib>
#include <sys/wait.h>
#include <unistd.h>
using namespace asmjit;
static bool g_fail = false;
extern "C" void* __libc_malloc(size_t);
extern "C" void* malloc(size_t n) { return g_fail ? nullptr : __libc_malloc(n); }

static int child(size_t pad) {
  Arena arena(4096);
  ConstPool pool(arena);
  (void)arena.alloc_oneshot(Arena::aligned_size(8 + pad));   // creates the first block, shifts the exhaustion point
  g_fail = true;
  for (uint64_t i = 1; i < 100000; i++) {
    uint64_t v = i * 0x0101010101010101ull + (i << 40) + 0x8000000000000000ull;  // distinct halves/quarters
    size_t off;
    Error e = pool.add(&v, 8, Out(off));
    if (e != Error::kOk) return 0;   // reported the failure: correct
  }
  return 2;
}
int main() {
  int crashed = 0;
  for (size_t pad = 0; pad < 256; pad += 8) {
    pid_t p = fork();
    if (p == 0) _exit(child(pad));
    int st = 0; waitpid(p, &st, 0);
    if (WIFSIGNALED(st)) { crashed++; printf("pad=%zu: child killed by signal %d\n", pad, WTERMSIG(st)); }
  }
  printf(crashed ? "FAIL: %d runs crashed instead of returning kOutOfMemory\n" : "PASS\n", crashed);
  return crashed ? 1 : 0;
}
