// C12 replay: query_features() reported the VEX feature set for forms only EVEX can encode:
//   vpclmulqdq xmm16, xmm17, xmm18, 0   -> PCLMULQDQ AVX            (needs AVX512_F AVX512_VL VPCLMULQDQ)
//   vaddps xmm0, xmm1, [rax]{1to4}      -> AVX                       (needs AVX512_F AVX512_VL)
//   vpaddd ymm0, ymm1, [rax]{1to8}      -> AVX2
// g++ -std=c++17 -I/repo features_evex_only_forms.cpp -o t -L/repo/_build -lasmjit -Wl,-rpath,/repo/_build && ./t
#include <asmjit/x86.h>
#include <cstdio>
using namespace asmjit;
using namespace asmjit::x86;
int main() {
  int bad = 0;
  auto q = [&](const char* what, InstId id, std::initializer_list<Operand> ops, bool evex) {
    Operand o[6]; size_t n = 0; for (auto& x : ops) o[n++] = x;
    CpuFeatures f;
    Error e = InstAPI::query_features(Arch::kX64, BaseInst(id), o, n, &f);
    bool has512 = f.x86().has_avx512_f(), hasavx = f.x86().has_avx() || f.x86().has_avx2() || f.x86().has_fma();
    bool ok = e == Error::kOk && has512 == evex && hasavx == !evex && (!evex || f.x86().has_avx512_vl());
    printf("%-40s err=%u avx512_f=%d avx512_vl=%d avx/avx2/fma=%d %s\n", what, unsigned(e), has512, f.x86().has_avx512_vl(), hasavx, ok ? "ok" : "WRONG");
    bad += !ok;
  };
  q("vpclmulqdq xmm16, xmm17, xmm18, 0", Inst::kIdVpclmulqdq, {xmm16, xmm17, xmm18, imm(0)}, true);
  q("vpclmulqdq ymm16, ymm17, ymm18, 0", Inst::kIdVpclmulqdq, {ymm16, ymm17, ymm18, imm(0)}, true);
  q("vpclmulqdq xmm0, xmm1, xmm2, 0", Inst::kIdVpclmulqdq, {xmm0, xmm1, xmm2, imm(0)}, false);
  q("vpclmulqdq ymm0, ymm1, ymm2, 0", Inst::kIdVpclmulqdq, {ymm0, ymm1, ymm2, imm(0)}, false);
  q("vaddps xmm0, xmm1, [rax]{1to4}", Inst::kIdVaddps, {xmm0, xmm1, ptr(rax)._1to4()}, true);
  q("vpaddd ymm0, ymm1, [rax]{1to8}", Inst::kIdVpaddd, {ymm0, ymm1, ptr(rax)._1to8()}, true);
  q("vfmadd231ps xmm0, xmm1, [rax]{1to4}", Inst::kIdVfmadd231ps, {xmm0, xmm1, ptr(rax)._1to4()}, true);
  q("vaddps xmm0, xmm1, [rax]", Inst::kIdVaddps, {xmm0, xmm1, ptr(rax)}, false);
  printf("%s\n", bad ? "FAIL" : "PASS");
  return bad != 0;
}
