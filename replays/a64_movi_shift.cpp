// C02/C14 replay: a64 `movi v0.2d, #imm64, lsl #8` - the 64-bit form has no shift; the encoder means to reject a non-zero second
// immediate but tests `o0.as<Imm>()` (the destination register read as an immediate, always 0) instead of o2: the shift is dropped.
// g++ -std=c++17 -I/repo a64_movi_shift.cpp -o t -L/repo/_build -lasmjit -Wl,-rpath,/repo/_build && ./t
#include <asmjit/a64.h>
#include <cstdio>
#include <cstring>
using namespace asmjit;
int main() {
  CodeHolder code; code.init(Environment(Arch::kAArch64));
  a64::Assembler a(&code);
  Error e0 = a.movi(a64::v0.d2(), Imm(0xFF00FF00FF00FF00ull));
  Error e1 = a.emit(a64::Inst::kIdMovi_v, a64::v0.d2(), Imm(0xFF00FF00FF00FF00ull), Imm(8));
  Error e2 = a.emit(a64::Inst::kIdMovi_v, a64::v0.d2(), Imm(0xFF00FF00FF00FF00ull), Imm(0));
  uint32_t w[3] = {0, 0, 0}; memcpy(w, code.text_section()->data(), code.text_section()->buffer_size() < 12 ? code.text_section()->buffer_size() : 12);
  printf("movi v0.2d,#m: err=%u %08x | with second immediate 8: err=%u %08x (expected an error) | with second immediate 0: err=%u\n", unsigned(e0), w[0], unsigned(e1), w[1], unsigned(e2));
  bool ok = e0 == Error::kOk && e1 != Error::kOk && e2 == Error::kOk;
  puts(ok ? "PASS" : "FAIL"); return ok ? 0 : 1;
}
