// malloc/calloc/realloc interposition used by the baseline demonstrations.
#pragma once
#include <stddef.h>
#include <stdlib.h>
#include <signal.h>
#include <unistd.h>
#include <string.h>

extern "C" {
void* __libc_malloc(size_t);
void* __libc_realloc(void*, size_t);
void* __libc_calloc(size_t, size_t);
}

static volatile long   g_countdown = -1;  // n >= 0: the n-th allocation from now fails
static volatile int    g_sticky = 0;      // once the countdown fired keep failing allocations of the same size
static volatile size_t g_fail_size = 0;   // fail every allocation of exactly this size
static volatile long   g_failed = 0;
static volatile long   g_calls = 0;

static inline bool should_fail(size_t n) {
  g_calls++;
  if (g_fail_size && n == g_fail_size) { g_failed++; return true; }
  if (g_countdown >= 0) {
    if (g_countdown == 0) { g_countdown = -1; g_failed++; if (g_sticky) g_fail_size = n; return true; }
    g_countdown--;
  }
  return false;
}

extern "C" void* malloc(size_t n) { return should_fail(n) ? nullptr : __libc_malloc(n); }
extern "C" void* calloc(size_t a, size_t b) { return should_fail(a * b) ? nullptr : __libc_calloc(a, b); }
extern "C" void* realloc(void* p, size_t n) { return should_fail(n) ? nullptr : __libc_realloc(p, n); }

static const char* g_where = "";
static void on_segv(int) {
  const char* m = "SIGSEGV while: ";
  write(1, m, strlen(m));
  write(1, g_where, strlen(g_where));
  write(1, "\n", 1);
  _exit(1);
}
static inline void install_segv_handler() { signal(SIGSEGV, on_segv); }
