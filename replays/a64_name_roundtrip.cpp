// C13 replay: name -> id round trip of every AArch64 instruction id.
// g++ -std=c++17 -I/repo a64_name_roundtrip.cpp -o t -L/repo/_build -lasmjit -Wl,-rpath,/repo/_build && ./t
#include <asmjit/a64.h>
#include <cstdio>
#include <string>
using namespace asmjit;
int main() {
  int bad = 0, total = 0;
  for (uint32_t id = 1; id < a64::Inst::_kIdCount; id++) {
    String name;
    InstAPI::inst_id_to_string(Arch::kAArch64, id, InstStringifyOptions::kNone, name);
    InstId back = InstAPI::string_to_inst_id(Arch::kAArch64, name.data(), name.size());
    String back_name;
    if (back != 0) InstAPI::inst_id_to_string(Arch::kAArch64, back, InstStringifyOptions::kNone, back_name);
    total++;
    if (back == 0 || std::string(back_name.data()) != std::string(name.data())) {
      if (bad < 8) printf("id %u `%s` -> %u `%s`\n", id, name.data(), back, back_name.data());
      bad++;
    }
  }
  printf("%d of %d AArch64 names do not map back to an id with that name\n", bad, total);
  return bad ? 1 : 0;
}
