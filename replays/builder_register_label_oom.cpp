// BASELINE 5: an out-of-memory error in BaseBuilder::register_label_node() (used by new_label_node(),
// new_const_pool_node() and BaseCompiler::new_func_node()) is returned without going through report_error():
// the ErrorHandler attached to the CodeHolder is never invoked (add_func() just returns nullptr).
#include "inject.h"
#include <asmjit/x86.h>
#include <stdio.h>

using namespace asmjit;

struct CountingHandler : public ErrorHandler {
  int calls = 0;
  void handle_error(Error, const char*, BaseEmitter*) override { calls++; }
};

int main() {
  setvbuf(stdout, nullptr, _IONBF, 0);
  Environment env(Arch::kX64);
  CodeHolder code; code.init(env);
  CountingHandler eh;
  code.set_error_handler(&eh);
  x86::Compiler cc(&code);

  // 128 labels fill the label table (2048 bytes); the next label makes it grow by a direct malloc().
  for (int i = 0; i < 128; i++) (void)cc.new_label();

  g_fail_size = 0; g_countdown = 0;
  FuncNode* f = cc.add_func(FuncSignature::build<void>());
  g_countdown = -1;

  printf("add_func() with failing allocation returned %p, failures injected: %ld, error handler calls: %d\n", (void*)f, g_failed, eh.calls);
  if (!g_failed) { printf("the failure was not injected - void\n"); return 3; }
  return (f == nullptr && eh.calls == 0) ? 1 : 0;
}
