// C15 replay: the register allocator stores pointers into its pass arena in the nodes (LabelNode -> RABlock*, InstNode -> RAInst*) and
// clears them only at the end of a successful rewrite (instruction nodes only). After a failed run - and for label nodes even after
// a successful one - the nodes keep pointers into the arena that is reset when the pass returns; running the passes again follows them.
// g++ -std=c++17 -I/repo rapass_stale_passdata.cpp -o t -L/repo/_build -lasmjit -Wl,-rpath,/repo/_build && ./t
#include <asmjit/x86.h>
#include <cstdio>
using namespace asmjit;
static unsigned stale(x86::Compiler& cc) { unsigned n = 0; for (BaseNode* node = cc.first_node(); node; node = node->next()) if (node->has_pass_data()) n++; return n; }
int main() {
  int fail = 0;
  for (int bad = 0; bad < 2; bad++) {
    CodeHolder code; code.init(Environment(Arch::kX64));
    x86::Compiler cc(&code);
    FuncNode* f = cc.add_func(FuncSignature::build<int, int, int>());
    x86::Gp a = cc.new_gp32("a"), b = cc.new_gp32("b");
    f->set_arg(0, a); f->set_arg(1, b);
    Label L = cc.new_label();
    for (int i = 0; i < 4; i++) { cc.add(a, b); cc.test(a, a); cc.jz(L); }
    cc.bind(L);
    if (bad) { Label never = cc.new_label(); cc.test(a, a); cc.jz(never); }      // the CFG builder fails on the unbound target
    cc.ret(a); cc.end_func();
    Error e = cc.finalize();
    unsigned n = stale(cc);
    printf("%s run: finalize err=%u, nodes that still carry pass data: %u (expected 0)\n", bad ? "failing" : "successful", unsigned(e), n);
    if (n) fail = 1;
  }
  puts(fail ? "FAIL" : "PASS"); return fail;
}
