// C09 replay: JitAllocator::write(span, fn) whose callback truncates the span to ZERO bytes hands new_size = 0 to the internal shrink,
// which assumes a non-empty remainder: the span's used bits are cleared but it stays counted, can neither be queried nor released, and a
// stop bit is planted in the neighbouring free area (the "new_size == 0 means release" handling exists only in JitAllocator::shrink()).
// g++ -std=c++17 -I/repo jitalloc_write_truncate_zero.cpp -o t -L/repo/_build -lasmjit -Wl,-rpath,/repo/_build && ./t
#include <asmjit/core.h>
#include <cstdio>
using namespace asmjit;
int main() {
  JitAllocator a;
  JitAllocator::Span s0, s1, s2;
  a.alloc(Out(s0), 64); a.alloc(Out(s1), 64); a.alloc(Out(s2), 256);
  a.release(s1.rx());
  void* rx2 = s2.rx();
  JitAllocator::Statistics before = a.statistics();
  Error e = a.write(s2, [](JitAllocator::Span& sp) noexcept -> Error { sp.shrink(0); return Error::kOk; });
  JitAllocator::Statistics after = a.statistics();
  JitAllocator::Span q; Error eq = a.query(Out(q), rx2);
  printf("write err=%u  allocations %zu -> %zu  used %zu -> %zu  query(old rx) err=%u\n", unsigned(e), before.allocation_count(), after.allocation_count(), before.used_size(), after.used_size(), unsigned(eq));
  // expected: either the call is refused (nothing changes) or the span is properly released (count and used both drop, query fails)
  bool refused = e != Error::kOk && after.allocation_count() == before.allocation_count() && after.used_size() == before.used_size();
  bool released = e == Error::kOk && after.allocation_count() + 1 == before.allocation_count() && after.used_size() + 256 == before.used_size() && eq != Error::kOk;
  a.release(s0.rx());
  JitAllocator::Statistics end = a.statistics();
  printf("after releasing everything: allocations=%zu\n", end.allocation_count());
  bool ok = (refused || released) && end.allocation_count() == (refused ? 1u : 0u);
  puts(ok ? "PASS" : "FAIL"); return ok ? 0 : 1;
}
