// C20/C14 replay: the logger must be a transcript of what was appended.
//  (1) bind(L) of an already bound label fails with kLabelAlreadyBound but logs a second `L0:` line;
//  (2) embed_label_delta(L1, L0, 1) with a 300-byte distance fails with kInvalidDisplacement, appends nothing, but logs `.db (L1 - L0)`;
//  (3) embed_data_array(kUIntPtr, ...) appends 16 bytes but logs an empty line (the abstract type id is handed to the formatter).
// g++ -std=c++17 -I/repo logger_refused_calls.cpp -o t -L/repo/_build -lasmjit -Wl,-rpath,/repo/_build && ./t
#include <asmjit/x86.h>
#include <cstdio>
#include <cstring>
#include <string>
using namespace asmjit;
static size_t count(const std::string& s, const char* needle) { size_t n = 0, p = 0; while ((p = s.find(needle, p)) != std::string::npos) { n++; p++; } return n; }
int main() {
  bool ok = true;
  {
    CodeHolder code; code.init(Environment(Arch::kX64)); StringLogger lg; code.set_logger(&lg); x86::Assembler a(&code);
    Label L = a.new_label(); a.bind(L); Error e = a.bind(L);
    std::string s(lg.data());
    printf("(1) second bind err=%u, `L0:` lines in log: %zu\n", unsigned(e), count(s, "L0:"));
    ok &= e != Error::kOk && count(s, "L0:") == 1;
  }
  {
    CodeHolder code; code.init(Environment(Arch::kX64)); StringLogger lg; code.set_logger(&lg); x86::Assembler a(&code);
    Label L0 = a.new_label(), L1 = a.new_label(); uint8_t zeros[300] = {};
    a.bind(L0); a.embed(zeros, 300); a.bind(L1);
    size_t before = code.text_section()->buffer().size();
    Error e = a.embed_label_delta(L1, L0, 1);
    std::string s(lg.data());
    printf("(2) embed_label_delta err=%u appended=%zu, `(L1 - L0)` in log: %zu\n", unsigned(e), code.text_section()->buffer().size() - before, count(s, "(L1 - L0)"));
    ok &= e != Error::kOk && code.text_section()->buffer().size() == before && count(s, "(L1 - L0)") == 0;
  }
  {
    CodeHolder code; code.init(Environment(Arch::kX64)); StringLogger lg; code.set_logger(&lg); x86::Assembler a(&code);
    uint64_t v[2] = { 0x1122334455667788ull, 0x99AABBCCDDEEFF00ull };
    Error e = a.embed_data_array(TypeId::kUIntPtr, v, 2);
    std::string s(lg.data());
    printf("(3) embed_data_array(kUIntPtr) err=%u appended=%zu log=\"%s\"\n", unsigned(e), code.text_section()->buffer().size(), s.substr(0, s.find('\n')).c_str());
    ok &= e == Error::kOk && code.text_section()->buffer().size() == 16 && s.find("1122334455667788") != std::string::npos;
  }
  printf("%s\n", ok ? "PASS" : "FAIL: the log is not a transcript of the code buffer");
  return ok ? 0 : 1;
}
