// C06 replay: emit_args_assignment() of a `double` argument whose destination is declared as float (and vice versa) selects the
// conversion of the opposite direction: cvtss2sd for double -> float, cvtsd2ss for float -> double.
// g++ -std=c++17 -I/repo arg_move_cvt_direction.cpp -o t -L/repo/_build -lasmjit -Wl,-rpath,/repo/_build && ./t
#include <asmjit/x86.h>
#include <cstdio>
using namespace asmjit;
static bool run(TypeId arg_type, TypeId dst_type, uint8_t want_prefix, const char* what) {
  CodeHolder code; code.init(Environment(Arch::kX64)); x86::Assembler a(&code);
  FuncSignature sig; sig.set_call_conv_id(CallConvId::kX64SystemV); sig.set_ret(TypeId::kVoid); sig.add_arg(arg_type);
  FuncDetail fd; if (fd.init(sig, code.environment()) != Error::kOk) return false;
  FuncFrame frame; frame.init(fd);
  FuncArgsAssignment args(&fd);
  args.assign_reg(0, x86::xmm3, dst_type);
  if (args.update_func_frame(frame) != Error::kOk) return false;
  frame.finalize();
  Error e = a.emit_args_assignment(frame, args);
  auto& b = code.text_section()->buffer();
  printf("%s: err=%u bytes=", what, unsigned(e));
  for (size_t i = 0; i < b.size(); i++) printf("%02X ", b.data()[i]);
  // cvtsd2ss = F2 0F 5A /r, cvtss2sd = F3 0F 5A /r
  bool ok = e == Error::kOk && b.size() == 4 && b.data()[0] == want_prefix && b.data()[1] == 0x0F && b.data()[2] == 0x5A;
  printf("%s\n", ok ? "ok" : "WRONG");
  return ok;
}
int main() {
  bool ok = run(TypeId::kFloat64, TypeId::kFloat32x1, 0xF2, "double argument -> float destination (cvtsd2ss)");
  ok &= run(TypeId::kFloat32, TypeId::kFloat64x1, 0xF3, "float argument -> double destination (cvtss2sd)");
  printf("%s\n", ok ? "PASS" : "FAIL");
  return ok ? 0 : 1;
}
