// C06 replay: 32-bit __vectorcall passes float / double in XMM0..5 and returns them in XMM0 (MSVC: "a vector type is either a
// floating-point type or a SIMD vector type ... vector type results are returned in XMM0").  FuncDetail reported ST0 for the
// return value (the choice looked at the word size only); cdecl / stdcall / fastcall return in ST0.
// g++ -std=c++17 -I/repo vectorcall32_float_ret.cpp -o t -L/repo/_build -lasmjit -Wl,-rpath,/repo/_build && ./t
#include <asmjit/x86.h>
#include <cstdio>
using namespace asmjit;
int main() {
  int bad = 0;
  auto q = [&](const char* what, CallConvId cc, Arch arch, RegType expect) {
    FuncSignature sig = FuncSignature::build<double, double>(cc);
    FuncDetail fd;
    Error e = fd.init(sig, Environment(arch));
    RegType rt = fd.ret(0).reg_type(), at = fd.arg(0).is_reg() ? fd.arg(0).reg_type() : RegType::kNone;
    printf("%-22s err=%u ret reg type=%u id=%u  arg0 %s type=%u\n", what, unsigned(e), unsigned(rt), fd.ret(0).reg_id(), fd.arg(0).is_reg() ? "reg" : "stack", unsigned(at));
    bad += e != Error::kOk || rt != expect;
  };
  q("x86 vectorcall", CallConvId::kVectorCall, Arch::kX86, RegType::kVec128);
  q("x86 cdecl", CallConvId::kCDecl, Arch::kX86, RegType::kX86_St);
  q("x86 stdcall", CallConvId::kStdCall, Arch::kX86, RegType::kX86_St);
  q("x86 fastcall", CallConvId::kFastCall, Arch::kX86, RegType::kX86_St);
  q("x64 vectorcall", CallConvId::kVectorCall, Arch::kX64, RegType::kVec128);
  q("x64 sysv", CallConvId::kX64SystemV, Arch::kX64, RegType::kVec128);
  printf("%s\n", bad ? "FAIL" : "PASS");
  return bad != 0;
}
