// C09 replay: reset(ResetPolicy::kSoft) keeps the first block of each pool and re-inserts it into the address tree without
// clearing its tree links; with two or more blocks the links point at blocks that have just been freed.
// g++ -std=c++17 -g -I/repo jitalloc_soft_reset_tree.cpp -o t -L/repo/_build -lasmjit -Wl,-rpath,/repo/_build && valgrind -q --error-exitcode=1 ./t
#include <asmjit/core.h>
#include <cstdio>
#include <vector>
#include <cstdlib>
using namespace asmjit;
int main(int argc, char** argv) {
  JitAllocator a;
  std::vector<JitAllocator::Span> spans;
  for (int i = 0; i < (argc > 1 ? atoi(argv[1]) : 100); i++) { JitAllocator::Span s; if (a.alloc(Out(s), 1024) != Error::kOk) return 2; spans.push_back(s); }
  printf("blocks before reset: %zu\n", a.statistics().block_count());
  a.reset(ResetPolicy::kSoft);
  printf("blocks after soft reset: %zu\n", a.statistics().block_count());
  int found = 0;
  for (auto& s : spans) { JitAllocator::Span q; if (a.query(Out(q), s.rx()) == Error::kOk) found++; }   // walks the tree
  JitAllocator::Span n; Error e = a.alloc(Out(n), 64);
  printf("stale pointers still found: %d, alloc after reset err=%u\n", found, unsigned(e));
  return found ? 1 : 0;
}
