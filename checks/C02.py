"""C02 — AArch64 encodings: validation-before-packing, dispatch and table clauses.
See DESIGN.md section 3 / C02.  Decides clauses C02.a, C02.b (and more below); does not decide
the encoding arithmetic over operand values."""
from lib import cfg, vbe
from lib.regions import Regions
from lib import a64common

UNIT = "asmjit/arm/a64assembler.cpp"
DBUNIT = "asmjit/arm/a64instdb.cpp"


def run(chk):
    A = a64common.load(chk)
    emit, summaries, regions = A["emit"], A["summaries"], A["regions"]

    # ------------------------------------------------------------------ C02.a
    a64common.rule_vbe(chk, A, "C02.a")

    # ------------------------------------------------------------------ C02.b dispatch + data index bounds
    a64common.rule_dispatch(chk, A)

    # ------------------------------------------------------------------ C02.c..f (database cross-checks)
    a64common.rule_db(chk, A)

    # ------------------------------------------------------------------ C02.g immediates are bounded before they are narrowed / encoded
    a64common.rule_imm(chk, A)
    a64common.rule_validators(chk, A)
    a64common.rule_tables(chk, A)
    a64common.rule_mem_index(chk, A)
    a64common.rule_mem_index_mode(chk, A)
    a64common.rule_shift_class(chk, A)
    a64common.rule_sibling_checks(chk, A)
    a64common.rule_shift_lossless(chk, A)
    a64common.rule_reg_type_seen(chk, A)
    a64common.rule_mem_base_label(chk, A)
    a64common.rule_q_sz_related(chk, A)
    from lib import a64vec
    a64vec.run(chk, A)
    a64vec.run_signature_rows(chk, A)
    a64vec.run_fp(chk, A)
    from lib import relocrules
    relocrules.bound_unbound(chk, [emit])
    from lib import opkind
    opkind.run(chk, emit, floor=150)
    from lib import sentinel
    sentinel.run_units(chk, ("a64",))

    from lib import movn32
    movn32.run(chk)
    from lib import ldstsiblings, a64vec as _a64vec
    ldstsiblings.run(chk)
    _a64vec.run_scalar_bit(chk, A)
    return chk.finish(
        level="other",
        explanation=("Static rules over a64::Assembler::_emit and the AArch64 tables of /repo's current source: "
                     "(a) every register id packed into the instruction word is range-validated on all paths before "
                     "the word is emitted (must/may dataflow over the clang CFG, validators derived from callee bodies); "
                     "(b) every encoding class has a dispatch case and every table row's data index is inside the array "
                     "its class reads; (c,d,f) field positions / register runs agree with db/isa_aarch64.json. "
                     "Does not decide the encoding arithmetic over operand values."))
