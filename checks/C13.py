"""C13 — validator / encoder / database agreement: generated tables, name index, validation hook
placement (DESIGN.md section 3 / C13)."""
import re
from lib import regen, nametables, cfg, core
from lib.must import Must


def run(chk):
    # C13.a signature / name tables regenerate identically
    regen.run(chk)
    # C13.b name index invariants, both back ends
    nametables.run(chk, "x86", "asmjit/x86/x86instdb.cpp", "asmjit/x86/x86instapi.cpp")
    nametables.run(chk, "a64", "asmjit/arm/a64instdb.cpp", "asmjit/arm/a64instapi.cpp")
    # C13.c validation hook placement
    hook_rule(chk)
    # C13.d operand-flag translation of vector-index memory operands in the x86 validator
    vm_flags_rule(chk)
    # C13.e AArch64 vector arrangements: encoder tables vs database, database self-consistency
    from lib import a64common, a64vec
    A = a64common.load(chk)
    a64vec.run(chk, A)
    a64vec.run_db_q(chk)
    from lib import evexsiblings
    evexsiblings.run(chk)
    a64vec.run_signature_rows(chk, A)
    a64vec.run_fp(chk, A)
    zmask_rule(chk)
    validator_mode_rule(chk)
    vsib_only_rule(chk)
    validation_data_rule(chk)
    implicit_reg_rule(chk)
    from lib import ersae
    ersae.run(chk)
    from lib import bcstsize
    bcstsize.run(chk)
    from lib import jecxzrule
    jecxzrule.run(chk)
    from lib import physidmask
    physidmask.run(chk)
    return chk.finish(
        level="other",
        explanation=("(a) the generated signature/name/RW tables regenerate byte-identically from db/; (b) for every instruction id of both "
                     "back ends the packed name decodes to the enumerator's name and the first-letter index satisfies the binary-search "
                     "preconditions (exhaustive), alias tables are sorted and agree with the alias enumerators, and the readers pass "
                     "matching tables; (c) in each emit function the strict-validation hook runs before anything is written to the buffer "
                     "or committed to the CodeHolder and its failure reaches the failing exit. Does not decide per-form acceptance agreement."))


def hook_rule(chk):
    R = "R-VALIDATE-HOOK"
    chk.rule(R, "the call of _funcs.validate in an emit function is preceded by no buffer write / commit call, receives the instruction's "
                "operands, and the edge on which its result is not kOk leads to the failing exit")
    sites = [("asmjit/x86/x86assembler.cpp", "x86::Assembler::_emit"), ("asmjit/arm/a64assembler.cpp", "a64::Assembler::_emit"),
             ("asmjit/core/builder.cpp", "BaseBuilder::_emit")]
    n = 0
    for unit, name in sites:
        f = chk.facts(unit, funcs="asmjit::" + name + "$")
        fn = cfg.find_fn(f, name)
        WRITES = ("emit8", "emit16u_le", "emit32u_le", "emit64u_le", "emit_zeros", "emit_immediate", "done", "new_fixup", "new_reloc_entry",
                  "add_node", "add_address_to_address_table")

        def elem_fx(eid, x):
            if x["k"] in ("call", "mcall") and x.get("cn") in WRITES:
                return ((("wrote", x["cn"]),), ())
            return None
        m = Must(fn, elem_fx, None)
        # may-analysis is what is needed for "nothing written before": approximate by reachability from entry to the hook through write calls
        hooks = []
        for i, x in fn.ex.items():
            if x["k"] in ("call", "mcall", "opcall") and "validate" in fn.text(x.get("callee_expr", 0) or i)[:60] and x.get("callee") is None and "_funcs" in fn.text(i):
                hooks.append(i)
        if not hooks and name.startswith("a64"):
            # AArch64 has no operand validator wired into the assembler (property text: "AArch64 has no operand validator")
            chk.ob(R, name + "|no-hook", True, loc=unit, detail="no validation hook in this emit function")
            continue
        chk.need(len(hooks) >= 1, "validation hook (_funcs.validate) not found in %s" % name)
        pos = fn.block_of()
        for h in hooks:
            n += 1
            b0, idx0 = pos[h]
            # blocks from which the hook is reachable
            before = {b for b in fn.blocks if b0 in fn.reachable_from(b)}
            bad = None
            for i, x in fn.calls(lambda x: x.get("cn") in WRITES):
                p = pos.get(i)
                if p and p[0] in before and (p[0] != b0 or p[1] < idx0) and b0 in fn.reachable_from(p[0]) and p[0] != b0:
                    # a write in a block that can reach the hook: only a problem if the hook's block is reachable from it
                    bad = i
                    break
            chk.ob(R, name + "|nothing-written-before", bad is None, loc=fn.loc(bad or h),
                   detail="%s() can run before the validation hook" % (fn.e(bad)["cn"] if bad else ""))
            # failing edge leads to a non-kOk exit without emitting: the block after the hook tests err != kOk
            ok_fail = False
            for b in fn.blocks.values():
                term = b.get("term")
                if term and term.get("cond") and "err" in fn.text(term["cond"]) and "kOk" in fn.text(term["cond"]):
                    if b["id"] in fn.reachable_from(b0) and (b["id"] == b0 or True):
                        # true edge (err != kOk) must not reach a success return
                        from lib.vbe import cond_atom
                        atom, pol = cond_atom(fn, term["cond"])
                        ax = fn.e(atom)
                        if ax and ax["k"] == "binop" and ax["op"] in ("!=", "=="):
                            fail_si = 0 if ((ax["op"] == "!=") == pol) else 1
                            tgt = b["succs"][fail_si]
                            if tgt is not None:
                                reach = fn.reachable_from(tgt)
                                succ_ret = any(fn.e(r).get("cvn") == "kOk" and rb in reach for rb, _, r in fn.return_sites())
                                # only the first such test after the hook matters
                                if pos[h][0] == b["id"] or b["id"] in fn.succs(b0) or b0 == b["id"]:
                                    ok_fail = not succ_ret
                                    break
            chk.ob(R, name + "|failure-reaches-error-exit", ok_fail, loc=fn.loc(h),
                   detail="a non-kOk validation result can still reach the success exit")
    chk.floor(R + ":hooks", n, 2)


def vm_flags_rule(chk):
    R = "R-VM-FLAGS"
    chk.rule(R, "x86 validate(): on the path where the memory operand's index register type equals RegType::kVec128 / kVec256 / kVec512 the "
                "operand flags gain exactly {kVm32x,kVm64x} / {kVm32y,kVm64y} / {kVm32z,kVm64z} (values from InstDB::OpFlags): the validator "
                "matches the same vm forms the database signatures are generated with")
    unit = "asmjit/x86/x86instapi.cpp"
    f = chk.facts(unit, funcs=r"asmjit::x86::InstInternal::validate$|asmjit::x86::[A-Za-z_]*validate[A-Za-z_]*$", enums=r"asmjit::x86::InstDB::OpFlags$|asmjit::RegType$")
    en = f["enums"].get("asmjit::x86::InstDB::OpFlags")
    chk.need(en is not None, "enum x86::InstDB::OpFlags not found")
    ev = {n: v for n, v in en["enumerators"]}
    want = {"kVec128": ev["kVm32x"] | ev["kVm64x"], "kVec256": ev["kVm32y"] | ev["kVm64y"], "kVec512": ev["kVm32z"] | ev["kVm64z"]}
    vmmask = 0
    for n in ("kVm32x", "kVm64x", "kVm32y", "kVm64y", "kVm32z", "kVm64z"):
        vmmask |= ev[n]
    nsite = 0
    for fn in cfg.load_functions(f):
        def edge_fx(b, si, atom, holds, fn=fn):
            x = fn.e(atom)
            if x and x["k"] == "binop" and x["op"] in ("==", "!=") and (x["op"] == "==") == holds:
                for a, c in ((x["lhs"], x["rhs"]), (x["rhs"], x["lhs"])):
                    cx = fn.e(fn.strip(c))
                    ax = fn.e(fn.strip(a))
                    if cx is not None and cx.get("cvn") in want and ax is not None and ax["k"] == "ref" and "index" in ax.get("name", ""):
                        return [("index-is", cx["cvn"])]
            return ()
        m = Must(fn, None, edge_fx)
        for i, x in sorted(fn.ex.items()):
            if x["k"] not in ("binop", "opcall") or "|=" not in (x.get("op") or ""):
                continue
            r = x.get("rhs") if x["k"] == "binop" else (x.get("args") or [None])[-1]
            rx = fn.e(fn.strip(r)) if r else None
            val = rx.get("cv") if rx else None
            if isinstance(val, str) and val.isdigit():
                val = int(val)
            if not isinstance(val, int) or not (val & vmmask):
                continue
            st = m.before(i) or frozenset()
            which = [f_[1] for f_ in st if f_[0] == "index-is"]
            if not which:
                # switch form: the nearest preceding `case RegType::kVecNNN:` of a switch over the index type that encloses this line
                best = None
                for sx in fn.ex.values():
                    if sx["k"] == "s:SwitchStmt" and "index" in fn.text(sx.get("cond", 0)):
                        for c in sx["cases"]:
                            if c.get("l", 0) <= x.get("l", 0) and (best is None or c["l"] > best[0]):
                                best = (c["l"], c.get("n"))
                if best and best[1] in want:
                    # no other case / default label between that case label and the assignment
                    which = [best[1]]
            nsite += 1
            ok = len(which) == 1 and val == want[which[0]]
            chk.ob(R, "validate|index=%s" % (which[0] if which else "?"), ok, loc=fn.loc(i),
                   detail="`%s` adds vm flags 0x%X under index type %s; the matching pair is 0x%X" % (" ".join(fn.text(i).split())[:70], val, which or "unknown",
                                                                                                 want[which[0]] if len(which) == 1 else 0),
                   key="vmflags|%s" % (which[0] if which else "?"))
    chk.floor(R + ":sites", nsite, 3)


def zmask_rule(chk):
    R = "R-ZMASK-REG-DEST"
    chk.rule(R, "x86 validate(): on the path where the {z} option is known to be set, a condition that looks at the kind of operand 0 "
                "(is_mem / is_reg / op_type) is evaluated and its memory edge leaves with an error: zeroing-masking with a memory destination "
                "(EVEX.z = 1, mod != 11) is #UD")
    unit = "asmjit/x86/x86instapi.cpp"
    f = chk.facts(unit, funcs=r"asmjit::x86::InstInternal::validate$|asmjit::x86::[A-Za-z_]*validate[A-Za-z_]*$")
    n = 0
    for fn in cfg.load_functions(f):
        ztests = [i for i, x in fn.calls(lambda x: x.get("cn") == "test" and x.get("args")) if "kX86_ZMask" in fn.text(x["args"][-1]) and "|" not in fn.text(x["args"][-1])]
        if not ztests:
            continue

        def edge_fx(b, si, atom, holds, fn=fn):
            x = fn.e(atom)
            if x and x["k"] == "call" and x.get("cn") == "test" and holds and x.get("args") and "kX86_ZMask" in fn.text(x["args"][-1]) and "|" not in fn.text(x["args"][-1]):
                return [("z",)]
            return ()
        m = Must(fn, None, edge_fx)
        found = []
        for b in fn.blocks.values():
            t = b.get("term")
            if not (t and t.get("cond") and len(b["succs"]) == 2):
                continue
            txt = "".join(fn.text(t["cond"]).split())
            if not (re.search(r"operands\[0\]\.(is_mem|is_reg|op_type)\(\)", txt)):
                continue
            last = [el for el in b["elems"] if isinstance(el, int)]
            st = (m.before(last[-1]) if last else None) or frozenset()
            if ("z",) not in st:
                continue
            # one edge must reach an error return without passing a success return
            for s in b["succs"]:
                if s is None:
                    continue
                rets = [r for bb, idx, r in fn.return_sites() if bb == s]
                if rets and all("make_error" in fn.text(r) for r in rets):
                    found.append(t["cond"])
        n += 1
        chk.ob(R, "%s|zmask" % fn.name.replace("asmjit::", ""), bool(found), loc="%s:%d" % (unit, fn.line_of(ztests[0])),
               detail="validate() accepts the {z} option without looking at the kind of the destination operand: `vmovups [rax]{k1}{z}, zmm1` passes",
               key="zmask|regdest")
    chk.floor(R + ":validators", n, 1)


def validator_mode_rule(chk):
    R = "R-VALIDATOR-BY-MODE"
    chk.rule(R, "x86: the validator stored in `_funcs.validate` depends on the target mode (validate_x86 / validate_x64 chosen through is_32bit() / "
                "arch()), and in each x86 emitter (Assembler, Builder, Compiler) that choice is made inside on_attach() after the base class "
                "attached the CodeHolder - only then is the environment known; a choice made at construction time always sees an empty environment")
    n = 0
    for unit, cls in (("asmjit/x86/x86assembler.cpp", "x86::Assembler"), ("asmjit/x86/x86builder.cpp", "x86::Builder"), ("asmjit/x86/x86compiler.cpp", "x86::Compiler")):
        f = chk.facts(unit, funcs=r"asmjit::%s::(on_attach|%s)$|asmjit::x86::[a-z_]+_emitter_funcs$" % (cls, cls.split("::")[-1]))
        fns = cfg.load_functions(f)
        att = [g for g in fns if g.name.endswith("%s::on_attach" % cls)]
        chk.need(len(att) == 1, "%s::on_attach not found" % cls)
        att = att[0]

        def selects_by_mode(g):
            for i, x in g.ex.items():
                if x["k"] == "binop" and x["op"] == "=" and re.sub(r"\s+", "", g.text(x["lhs"])).endswith("_funcs.validate"):
                    r = g.text(x["rhs"])
                    if re.search(r"is_32bit\(\)|is_64bit\(\)|arch\(\)|environment\(\)", r) and "validate_x86" in r and "validate_x64" in r:
                        return True
            return False
        closure = cfg.callee_closure(att, fns)
        # position: the selecting call (or assignment) is preceded on every path by Base::on_attach
        def elem(eid, x, g=att):
            if x["k"] in ("mcall", "call") and x.get("cn") == "on_attach":
                return ((("base-attached",),), ())
            return None
        m = Must(att, elem, None)
        ok = False
        where = att.loc(att.entry) if False else "%s:%d" % (unit, att.line)
        if selects_by_mode(att):
            ok = True
        for i, x in att.calls():
            for g in closure:
                if g is not att and x.get("callee") == g.name and selects_by_mode(g):
                    ok = ("base-attached",) in (m.before(i) or frozenset())
                    where = att.loc(i)
        n += 1
        chk.ob(R, "%s|on_attach" % cls, ok, loc=where,
               detail="%s::on_attach() does not (after Base::on_attach) select validate_x86 / validate_x64 by the attached code's mode: a 32-bit target "
                      "is validated with the 64-bit signature tables (aaa / pushad / les rejected, swapgs accepted)" % cls, key="validatormode|%s" % cls)
    chk.floor(R + ":emitters", n, 3)


def vsib_only_rule(chk):
    R = "R-VSIB-NOT-PLAIN-MEM"
    chk.rule(R, "x86 validate(): the plain memory-operand flags (kMemUnspecified, kMem8 .. kMem512) are never added on a path on which the index "
                "register type was found to be a vector type (may-analysis from the `index_type == RegType::kVecNNN` edges, ended by the false "
                "edge of a test of the vm flags): a VSIB operand only matches vm32/vm64 operands of the signature tables")
    unit = "asmjit/x86/x86instapi.cpp"
    f = chk.facts(unit, funcs=r"asmjit::x86::InstInternal::validate$|asmjit::x86::[A-Za-z_]*validate[A-Za-z_]*$", enums=r"asmjit::x86::InstDB::OpFlags$")
    en = f["enums"].get("asmjit::x86::InstDB::OpFlags")
    chk.need(en is not None, "enum x86::InstDB::OpFlags not found")
    ev = {n: v for n, v in en["enumerators"]}
    plain = 0
    for n_, v in ev.items():
        if re.match(r"kMem(\d+|Unspecified)$", n_):
            plain |= v
    chk.need(plain != 0, "plain memory flags not found in OpFlags")
    from lib.cfg import forward
    from lib.must import branch_atoms
    n = 0
    for fn in cfg.load_functions(f):
        sites = []
        for i, x in sorted(fn.ex.items()):
            if x["k"] in ("binop", "opcall") and "|=" in (x.get("op") or ""):
                r = x.get("rhs") if x["k"] == "binop" else (x.get("args") or [None])[-1]
                rx = fn.e(fn.strip(r)) if r else None
                val = rx.get("cv") if rx else None
                if isinstance(val, str) and val.isdigit():
                    val = int(val)
                if isinstance(val, int) and (val & plain) and not (val & ~plain):
                    sites.append(i)
        if not sites:
            continue
        atoms = branch_atoms(fn)

        def edge(b, si, s, st, fn=fn):
            if b in atoms:
                atom, pol = atoms[b]
                holds = (si == 0) == pol
                x = fn.e(atom)
                t = "".join(fn.text(atom).split())
                if x and x["k"] == "binop" and x["op"] == "==" and holds and re.search(r"RegType::kVec(128|256|512)", t) and "index" in t:
                    return st | {"vec-index"}
                if x and x["k"] in ("call", "mcall") and x.get("cn") == "test" and "kVmMask" in t and not holds:
                    return st - {"vec-index"}
            return st
        IN, OUT = forward(fn, frozenset(), lambda b, st: st, lambda ss: frozenset().union(*ss), edge=edge)
        pos = fn.block_of()
        for i in sites:
            if i not in pos:
                continue
            n += 1
        bad = [i for i in sites if i in pos and "vec-index" in IN.get(pos[i][0], frozenset())]
        chk.ob(R, "%s|plain-mem-flags" % fn.name.replace("asmjit::", ""), not bad, loc=fn.loc(bad[0]) if bad else "%s:%d" % (unit, fn.line),
               detail="`%s` adds a plain memory flag on a path where the index register is a vector register: `mov eax, [rcx + xmm0]` passes "
                      "validation and is encoded as [rcx + rax]" % (" ".join(fn.text(bad[0]).split())[:50] if bad else ""), key="vsibplain|validate")
    chk.floor(R + ":flag-sites", n, 8)


def validation_data_rule(chk):
    R = "R-TABLE-ORACLE"
    chk.rule(R, "x86 validator mode data (x86_validation_data / x64_validation_data): the register types allowed as memory base / index equal "
                "the architecture: 32-bit mode {Gp16, Gp32, label} / {Gp16, Gp32, vector}; 64-bit mode {Gp32, Gp64, RIP, label} / {Gp32, Gp64, "
                "vector} - RIP-relative addressing does not exist in 32-bit mode")
    f = chk.facts("asmjit/x86/x86instapi.cpp", tables=r"asmjit::x86::InstInternal::(x86|x64)_validation_data$", enums=r"asmjit::RegType$")
    rt = f["enums"].get("asmjit::RegType")
    chk.need(rt is not None, "enum RegType not found")
    rv = {n: v for n, v in rt["enumerators"]}
    bit = lambda *ns: sum(1 << rv[n_] for n_ in ns)
    want = {"x86": {"allowed_mem_base_regs": bit("kGp16", "kGp32", "kLabelTag"), "allowed_mem_index_regs": bit("kGp16", "kGp32", "kVec128", "kVec256", "kVec512")},
            "x64": {"allowed_mem_base_regs": bit("kGp32", "kGp64", "kPC", "kLabelTag"), "allowed_mem_index_regs": bit("kGp32", "kGp64", "kVec128", "kVec256", "kVec512")}}
    n = 0
    for mode, fields in want.items():
        t = f["tables"].get("asmjit::x86::InstInternal::%s_validation_data" % mode)
        chk.need(t is not None and isinstance(t.get("value"), dict), "%s_validation_data not dumped" % mode)
        for fld, w in fields.items():
            got = t["value"].get(fld)
            n += 1
            names = lambda m_: sorted(k for k, v in rv.items() if v < 32 and (m_ >> v) & 1 and k != "kMaxValue")
            chk.ob(R, "%s_validation_data.%s" % (mode, fld), got == w, loc="asmjit/x86/x86instapi.cpp",
                   detail="%s_validation_data.%s allows %s, the architecture allows %s" % (mode, fld, names(got or 0), names(w)), key="validationdata|%s|%s" % (mode, fld))
    chk.floor(R + ":validation-data", n, 4)


def implicit_reg_rule(chk):
    R = "R-IMPLICIT-REG-COMPARED"
    chk.rule(R, "x86 check_op_sig(): for every operand class (register, memory) for which the generated _op_signature_table contains entries "
                "that fix a register (non-zero _reg_mask: `al`, `cl`, `es:[zdi]`, `ds:[zsi]` ...), a comparison of the operand's reg_mask() "
                "with the signature's is evaluated under the test of that class and its mismatch edge returns false")
    f = chk.facts("asmjit/x86/x86instdb.cpp", tables=r"asmjit::x86::InstDB::_op_signature_table$", enums=r"asmjit::x86::InstDB::OpFlags$")
    t = f["tables"].get("asmjit::x86::InstDB::_op_signature_table", {}).get("value")
    en = f["enums"].get("asmjit::x86::InstDB::OpFlags")
    chk.need(isinstance(t, list) and en is not None, "_op_signature_table / OpFlags not dumped")
    ev = {n: v for n, v in en["enumerators"]}
    need = {}
    for cname, other in (("kRegMask", "kMemMask"), ("kMemMask", "kRegMask")):
        rows = [r for r in t if r.get("_reg_mask") and (r["_flags"] & ev[cname]) and not (r["_flags"] & ev[other])]
        if rows:
            need[cname] = len(rows)
    chk.need(len(need) >= 1, "no signature entry with an implicit register found")
    ff = chk.facts("asmjit/x86/x86instapi.cpp", funcs=r"asmjit::x86::InstInternal::check_op_sig$|asmjit::x86::check_op_sig$|check_op_sig$")
    fns = [g for g in cfg.load_functions(ff) if g.name.endswith("check_op_sig")]
    chk.need(len(fns) == 1, "check_op_sig not found")
    g = fns[0]
    par = g.parent_map()
    guarded = set()
    cond_roots = [x.get("cond") for x in g.ex.values() if x["k"] == "s:IfStmt" and x.get("cond") is not None]
    # named sub-conditions (`const bool reg_mask_mismatch = ...; if (reg_mask_mismatch && ...)`) are read through their initialisers
    linit = {}
    for d_ in g.ex.values():
        if d_["k"] == "decl":
            for v_ in d_["vars"]:
                if v_.get("init") is not None:
                    linit[v_["did"]] = v_["init"]

    def expand(i, depth=0):
        out = []
        for j in g.walk(i):
            out.append(j)
            y = g.e(j)
            if y is not None and y["k"] == "ref" and y.get("dk") == "local" and y.get("did") in linit and depth < 3:
                out += expand(linit[y["did"]], depth + 1)
        return out

    def etext(i):
        return " ".join(g.text(j) for j in expand(i) if (g.e(j) or {}).get("k") in ("call", "mcall", "binop", "ref"))
    _walk_orig, _text_orig = g.walk, g.text
    for i in cond_roots:
        # any condition that reads the reg_mask() of both the operand and the signature entry
        owners = set()
        for j in expand(i):
            y = g.e(j)
            if y is not None and y["k"] == "mcall" and y.get("cn") == "reg_mask" and y.get("obj"):
                r = g.root_ref(y["obj"])
                if r is not None:
                    owners.add((g.e(r) or {}).get("name"))
        if True:
            if len(owners) >= 2:
                # enclosing conditions
                j = i
                conds = []
                while j in par:
                    pj = g.e(par[j])
                    if pj is not None and pj["k"] == "s:IfStmt" and pj.get("cond") is not None and j != pj.get("cond") and j not in set(g.walk(pj["cond"])):
                        conds.append(etext(pj["cond"]))
                    j = par[j]
                conds.append("own: " + " ".join(t for t in etext(i).split() if "common_flags" in t or "kRegMask" in t or "kMemMask" in t) if "common_flags" in etext(i) else "")
                for cname in ("kRegMask", "kMemMask"):
                    if any(cname in c for c in conds):
                        guarded.add(cname)
                if not any(("kRegMask" in c or "kMemMask" in c) for c in conds):
                    guarded |= {"kRegMask", "kMemMask"}
    # merged signatures (`ax | m16` of fnstsw / fstsw): the fixed register belongs to the register alternative, the memory alternative
    # takes any base - the memory-class comparison must exclude signatures that have a register alternative
    merged = [r for r in t if r.get("_reg_mask") and (r["_flags"] & ev["kRegMask"]) and (r["_flags"] & ev["kMemMask"])]
    if merged:
        ok_m, where = False, None
        for i in cond_roots:
            owners = set()
            for j in expand(i):
                y = g.e(j)
                if y is not None and y["k"] == "mcall" and y.get("cn") == "reg_mask" and y.get("obj"):
                    r = g.root_ref(y["obj"])
                    if r is not None:
                        owners.add((g.e(r) or {}).get("name"))
            if len(owners) < 2:
                continue
            j, conds = i, []
            while j in par:
                pj = g.e(par[j])
                if pj is not None and pj["k"] == "s:IfStmt" and pj.get("cond") is not None and j != pj.get("cond") and j not in set(g.walk(pj["cond"])):
                    conds.append(etext(pj["cond"]))
                j = par[j]
            if any("kMemMask" in c for c in conds):
                where = i
                own = " ".join(etext(i).split())
                ok_m = ("kRegMask" in own and "ref" in own) or "ref.has_reg" in own or any(("kRegMask" in c and "ref" in c and "common" not in c) for c in conds)
        chk.ob(R, "check_op_sig|merged-signatures", ok_m, loc=g.loc(where) if where is not None else "asmjit/x86/x86instapi.cpp:%d" % g.line,
               detail="%d signature entries have a register AND a memory alternative with a fixed register (`ax | m16` of fnstsw / fstsw): the "
                      "register belongs to the register alternative, but the memory-class comparison applies it to the base register of every "
                      "memory operand - `fnstsw word ptr [rcx]` is refused although the database lists `fnstsw m16`" % len(merged),
               key="implicitreg|merged")
    for cname, cnt in sorted(need.items()):
        chk.ob(R, "check_op_sig|%s" % cname, cname in guarded, loc="asmjit/x86/x86instapi.cpp:%d" % g.line,
               detail="%d signature entries of class %s fix a register, but check_op_sig() compares reg_mask() only for %s: an operand that uses "
                      "another register (stos [rbx], eax) matches" % (cnt, cname, sorted(guarded) or "no class"), key="implicitreg|%s" % cname)
    chk.floor(R + ":classes", len(need), 2)
