"""C03 — label references: bookkeeping / ordering clauses (DESIGN.md section 3 / C03)."""
import re
from lib import cfg, core, labelvalid, pcrel, narrow, relocrules
from lib.cfg import forward
from lib.must import Must, branch_atoms

UNIT = "asmjit/core/codeholder.cpp"


def run(chk):
    rules = core.load_json("rules/c14.json")
    # C03.a (shared with C14.a)
    labelvalid.run(chk, rules["label_valid_exceptions"])
    labelvalid.run_bound_strict(chk)

    f = chk.facts(UNIT, funcs=r"asmjit::CodeHolder::(new_fixup|bind_label|resolve_cross_section_fixups)$|asmjit::CodeHolder_reset_containers$|asmjit::ResolveFixupIterator::",
                  records=r"^asmjit::ResolveFixupIterator$")
    fns = {cfg.Fn(fo).name.replace("asmjit::", ""): cfg.Fn(fo) for fo in f["functions"]}

    # ---------------------------------------------------------------- C03.c unresolved counter
    R = "R-FIXUP-COUNTER"
    chk.rule(R, "_unresolved_fixup_count is written only as `++` in new_fixup, `-= it.resolved_count()` in functions that run a "
                "ResolveFixupIterator (on every path from the iterator to the exit) and `= 0` in the reset closure")
    fall = chk.facts(UNIT, funcs_calling=r"NOTHING^", funcs=r"asmjit::CodeHolder")
    nwr = 0
    for fo in fall["functions"]:
        fn = cfg.Fn(fo)
        sn = fn.name.replace("asmjit::", "")
        for i, x in fn.ex.items():
            form = None
            if x["k"] == "unop" and x["op"] in ("++", "--") and (fn.access_path(x["sub"]) or "").endswith("_unresolved_fixup_count"):
                form = x["op"]
            elif x["k"] == "binop" and x["op"].endswith("=") and x["op"] not in ("==", "!=", "<=", ">=") and (fn.access_path(x["lhs"]) or "").endswith("_unresolved_fixup_count"):
                form = x["op"] + " " + re.sub(r"\s+", "", fn.text(x["rhs"]))
            if form is None:
                continue
            nwr += 1
            if form == "++":
                ok = sn == "CodeHolder::new_fixup"
            elif form == "= 0":
                ok = sn in ("CodeHolder_reset_containers", "CodeHolder::CodeHolder")
            elif re.match(r"^-= \w+\.resolved_count\(\)$", form):
                ok = any(y["k"] == "decl" and any("ResolveFixupIterator" in v["ty"] for v in y["vars"]) for y in fn.ex.values())
            else:
                ok = False
            chk.ob(R, "write|%s|%s" % (sn, form), ok, loc=fn.loc(i), detail="%s writes _unresolved_fixup_count as `%s`" % (sn, form),
                   key="fixupcounter|%s|%s" % (sn, form))
    chk.floor(R + ":writes", nwr, 4)
    for name in ("CodeHolder::bind_label", "CodeHolder::resolve_cross_section_fixups"):
        chk.need(name in fns, "%s not found" % name)
        fn = fns[name]

        def elem_fx(eid, x):
            if x["k"] == "decl" and any("ResolveFixupIterator" in v["ty"] for v in x["vars"]):
                return ((("iter",),), ())
            if x["k"] == "binop" and x["op"] == "-=" and (fn.access_path(x["lhs"]) or "").endswith("_unresolved_fixup_count") and "resolved_count()" in fn.text(x["rhs"]) \
                    and "unresolved_count" not in fn.text(x["rhs"]):
                return ((("sub",),), ())
            return None
        m = Must(fn, elem_fx, None)
        k = 0
        for b, idx, r in fn.return_sites():
            st = m.before(r) or frozenset()
            if ("iter",) in st:
                k += 1
                chk.ob(R, "%s|subtract-before-exit#%d" % (name, k), ("sub",) in st, loc=fn.loc(r),
                       detail="%s returns after running the fixup iterator without `_unresolved_fixup_count -= it.resolved_count()`" % name)
        chk.need(k >= 1, "%s: no exit after the ResolveFixupIterator found" % name)

    # ---------------------------------------------------------------- C03.b one advance per iteration, resolve only when patched
    R2 = "R-FIXUP-ITERATION"
    chk.rule(R2, "between two evaluations of it.is_valid() exactly one of it.next() / it.resolve_and_next() runs on every path, and "
                 "resolve_and_next() (which frees the fixup) is reached only after write_offset() returned true or a relocation payload was adjusted")
    # unit-local bool helpers that return the result of write_offset()
    wo_wrappers = set()
    fw_ = chk.facts(UNIT, funcs=r"asmjit::[A-Za-z_0-9]+$")
    for g_ in cfg.load_functions(fw_):
        if (g_.raw.get("ret") or "") == "bool":
            for b_, idx_, r_ in g_.return_sites():
                v_ = g_.e(g_.strip(g_.e(r_).get("val"))) if g_.e(r_).get("val") is not None else None
                if v_ is not None and v_["k"] in ("call", "mcall") and v_.get("cn") == "write_offset":
                    wo_wrappers.add(g_.name)
    for name in ("CodeHolder::bind_label", "CodeHolder::resolve_cross_section_fixups"):
        fn = fns[name]
        viol = iteration_counts(fn)
        chk.ob(R2, name + "|one-advance-per-iteration", not viol, loc=fn.loc(viol[0][0]) if viol else "%s:%d" % (UNIT, fn.line),
               detail="; ".join(v[1] for v in viol[:3]))

        def is_patch_call(x):
            return x is not None and x["k"] in ("call", "mcall") and (x.get("cn") == "write_offset" or x.get("callee") in wo_wrappers)

        def edge_fx(b, si, atom, holds, facts):
            x = fn.e(atom)
            if is_patch_call(x) and holds:
                return [("patched",)]
            if x is not None and x["k"] == "ref" and x.get("dk") == "local":
                # a bool local that carries the result (`resolved = try_patch(...)`) or a literal
                d = x.get("did")
                lits = [t[2] for t in facts if t[0] == "lit" and t[1] == d]
                if lits and lits[0] != holds:
                    return "INFEASIBLE"
                if holds and ("carrier", d) in facts:
                    return [("patched",)]
            return ()

        def elem_fx(eid, x, facts):
            if x["k"] == "binop" and x["op"] in ("+=", "=") and (fn.access_path(x["lhs"]) or "").endswith("._payload"):
                return ((("patched",),), ())
            if x["k"] == "mcall" and x.get("cn") == "is_valid" and x.get("m") != "ASMJIT_ASSERT":
                return ((), (("patched",),))
            rhs, did_ = None, None
            if x["k"] == "binop" and x["op"] == "=":
                l = fn.e(fn.strip(x["lhs"]))
                if l is not None and l["k"] == "ref" and l.get("dk") == "local" and "bool" in (l.get("ty") or ""):
                    did_, rhs = l["did"], fn.e(fn.strip(x["rhs"]))
            elif x["k"] == "decl":
                for v_ in x["vars"]:
                    if "bool" in (v_.get("ty") or "") and v_.get("init") is not None:
                        did_, rhs = v_["did"], fn.e(fn.strip(v_["init"]))
            if did_ is not None and rhs is not None:
                kills = [t for t in facts if t[0] in ("lit", "carrier") and t[1] == did_]
                if is_patch_call(rhs):
                    return ([("carrier", did_)], kills)
                if rhs["k"] == "bool" or isinstance(rhs.get("cv"), int):
                    return ([("lit", did_, bool(rhs.get("cv")))], kills)
                return ([], kills)
            return None
        from lib.relational import Relational
        m = Relational(fn, elem_fx, edge_fx)
        n = 0
        for i, x in fn.calls(lambda x: x.get("cn") == "resolve_and_next"):
            n += 1
            chk.ob(R2, "%s|resolve-only-when-patched#%d" % (name, n), m.must(i, ("patched",)) is True, loc=fn.loc(i),
                   detail="the fixup is released although write_offset() did not succeed on this path (reference silently dropped)")
        chk.need(n >= 1, "%s no longer calls resolve_and_next" % name)
        # a failed write_offset must keep the fixup and produce an error
        for i, x in fn.calls(lambda x: x.get("cn") == "write_offset"):
            blk = fn.block_of().get(i)
            chk.ob(R2, "%s|write_offset-result-used" % name, any(a == fn.strip(i) or a == i for a, p in branch_atoms(fn).values()), loc=fn.loc(i),
                   detail="the bool result of write_offset() does not control a branch")

    # ---------------------------------------------------------------- C03.d splice of survivors
    R3 = "R-FIXUP-SPLICE"
    chk.rule(R3, "bind_label: when fixups survive (it.unresolved_count() != 0) the label's remaining list is spliced in front of the holder's "
                 "cross-section list (`*it._prev = _fixups; _fixups = label_fixups`) before returning")
    bl = fns["CodeHolder::bind_label"]

    def edge_fx2(b, si, atom, holds):
        if "unresolved_count" in bl.text(atom) and holds:
            return [("survivors",)]
        return ()

    def elem_fx2(eid, x):
        if x["k"] == "binop" and x["op"] == "=":
            l, r = re.sub(r"\s+", "", bl.text(x["lhs"])), re.sub(r"\s+", "", bl.text(x["rhs"]))
            if l.endswith("_prev") and l.startswith("*") and r.endswith("_fixups"):
                return ((("tail-linked",),), ())
            if l.endswith("_fixups") and r == "label_fixups":
                return ((("head-set",),), ())
        return None
    m = Must(bl, elem_fx2, edge_fx2)
    heads = [i for i, x in bl.ex.items() if x["k"] == "binop" and x["op"] == "=" and re.sub(r"\s+", "", bl.text(x["lhs"])).endswith("_fixups")
             and re.sub(r"\s+", "", bl.text(x["rhs"])) == "label_fixups"]
    chk.ob(R3, "bind_label|splice", len(heads) == 1 and {("survivors",), ("tail-linked",)} <= (m.before(heads[0]) or frozenset()),
           loc=bl.loc(heads[0]) if heads else "%s:%d" % (UNIT, bl.line),
           detail="the survivors of the label's fixup list are not linked to _fixups under `if (it.unresolved_count())` with the tail linked first")
    # the splice block must be on every path where survivors exist: the final return is dominated by either !survivors or head-set
    last_ret = [r for _, _, r in bl.return_sites()][-1:]
    # ---------------------------------------------------------------- C03.f OffsetFormat literal tuples
    offset_format_rule(chk)
    # ---------------------------------------------------------------- C03.e' pc-relative displacements account for the trailing immediate
    fx = chk.facts("asmjit/x86/x86assembler.cpp", funcs=r"x86::Assembler::_emit$")
    pcrel.run(chk, cfg.find_fn(fx, "x86::Assembler::_emit"), "asmjit/x86/x86assembler.cpp")
    pcrel.run_position(chk, cfg.find_fn(fx, "x86::Assembler::_emit"), "asmjit/x86/x86assembler.cpp")

    # ---------------------------------------------------------------- displacement codec never truncates silently (shared with C17.e)
    fcw = chk.facts("asmjit/core/codewriter.cpp", funcs=r"asmjit::CodeWriterUtils::(encode_offset32|encode_offset64|write_offset)$")
    narrow.run(chk, [cfg.Fn(fo) for fo in fcw["functions"]], floor=2)
    fall_cw = chk.facts("asmjit/core/codewriter.cpp", funcs=r"asmjit::CodeWriterUtils[A-Za-z_0-9:]*$")
    cw_helpers = {"%s/%d" % (cfg.Fn(fo).name, len(cfg.Fn(fo).params)): cfg.Fn(fo) for fo in fall_cw["functions"]}
    cw_fns = [g for g in cw_helpers.values() if g.name.endswith(("encode_offset32", "encode_offset64"))]
    fa64e = chk.facts("asmjit/arm/a64assembler.cpp", funcs=r"a64::Assembler::_emit$")
    narrow.run_discard(chk, cw_fns + [cfg.find_fn(fa64e, "a64::Assembler::_emit")], cw_helpers)
    fbe = chk.facts("asmjit/core/assembler.cpp", funcs=r"asmjit::BaseAssembler::embed_label(_delta)?$")
    from lib import a64common
    a64common.rule_mem_base_label(chk, a64common.load(chk))
    fxh = chk.facts("asmjit/x86/x86assembler.cpp", funcs=r"asmjit::x86::[a-z_0-9]+$")
    x86_helpers = {"%s/%d" % (g.name, len(g.params)): g for g in cfg.load_functions(fxh) if g.file.endswith("x86assembler.cpp")}
    narrow.run_label_delta(chk, [cfg.find_fn(fx, "x86::Assembler::_emit"), cfg.find_fn(fa64e, "a64::Assembler::_emit")] + [cfg.Fn(fo) for fo in fbe["functions"]],
                           helpers=x86_helpers)

    # ---------------------------------------------------------------- a label relocation takes offset and section from one label entry
    em = []
    for unit, rex in (("asmjit/x86/x86assembler.cpp", r"x86::Assembler::_emit$"), ("asmjit/core/assembler.cpp", r"BaseAssembler::(embed_label|embed_label_delta)$")):
        em += cfg.load_functions(chk.facts(unit, funcs=rex))
    relocrules.target_pair(chk, em)
    em2 = list(em)
    em2 += cfg.load_functions(chk.facts("asmjit/arm/a64assembler.cpp", funcs=r"a64::Assembler::_emit$"))
    relocrules.bound_unbound(chk, em2)
    fch = chk.facts("asmjit/core/codeholder.cpp", funcs=r"asmjit::CodeHolder::(relocate_to_base|bind_label)$")
    relocrules.target_section_used(chk, cfg.find_fn(fch, "CodeHolder::relocate_to_base"))
    relocrules.bind_label_sections(chk, cfg.find_fn(fch, "CodeHolder::bind_label"))

    # ---------------------------------------------------------------- a bound label entry never receives a fixup list
    RF = "R-FIXUP-ONLY-UNBOUND"
    chk.rule(RF, "CodeHolder::new_fixup: the label entry's offset/fixup word is overwritten with a fixup pointer (_set_fixups) only on the edge "
                 "where the entry is known not to be bound - for a bound label that word is its offset")
    fnf = chk.facts("asmjit/core/codeholder.cpp", funcs=r"asmjit::CodeHolder::new_fixup$")
    nf = cfg.find_fn(fnf, "CodeHolder::new_fixup")

    def bound_edge(b, si, atom, holds, fn=nf):
        x = fn.e(atom)
        if x and x["k"] == "mcall" and x.get("cn") == "is_bound" and not holds:
            return [("unbound", fn.access_path(x["obj"]))]
        if x and x["k"] == "unop" and x["op"] == "!" and holds:
            y = fn.e(fn.strip(x["sub"]))
            if y and y["k"] == "mcall" and y.get("cn") == "is_bound":
                return [("unbound", fn.access_path(y["obj"]))]
        return ()
    mnf = Must(nf, None, bound_edge)
    sets = [(i, x) for i, x in nf.calls(lambda x: x.get("cn") == "_set_fixups")]
    chk.need(len(sets) >= 1, "new_fixup no longer calls _set_fixups")
    for k, (i, x) in enumerate(sets):
        root = nf.access_path(x["obj"])
        chk.ob(RF, "CodeHolder::new_fixup|_set_fixups#%d" % k, ("unbound", root) in (mnf.before(i) or frozenset()), loc=nf.loc(i),
               detail="`%s` can run for a bound label entry: its offset is replaced by a heap pointer, the reference is never resolved and later "
                      "references to the label use the pointer as an offset" % " ".join(nf.text(i).split())[:60], key="fixupunbound|%d" % k)

    from lib import writeoffset
    writeoffset.run(chk)
    from lib import disp8fits
    disp8fits.run(chk)
    from lib import labelbase
    labelbase.run(chk)
    return chk.finish(
        level="other",
        explanation=("Bookkeeping rules over label/fixup handling in /repo's current source: label ids validated on the taken edge before "
                     "label entries are dereferenced; the unresolved counter is written only in its inverse pair forms and subtracted on every "
                     "exit that ran the fixup iterator; exactly one iterator advance per loop iteration and a fixup is released only after a "
                     "successful patch; survivors are spliced into the cross-section list; OffsetFormat literals satisfy the encoder's "
                     "preconditions. Does not decide the displacement values written."))


def iteration_counts(fn):
    """May-analysis of (origin, advances) pairs; returns list of (expr id, message) violations."""
    viol = []

    def step(el, st, report):
        x = fn.e(el)
        if not x:
            return st
        if x["k"] == "decl" and any("ResolveFixupIterator" in v["ty"] for v in x["vars"]):
            return frozenset({("ctor", 0)})
        if x["k"] == "mcall" and x.get("cn") in ("next", "resolve_and_next") and "ResolveFixupIterator" in x.get("cls", ""):
            return frozenset((o, min(c + 1, 2)) for (o, c) in st)
        if x["k"] == "mcall" and x.get("cn") == "is_valid" and "ResolveFixupIterator" in x.get("cls", ""):
            if x.get("m") == "ASMJIT_ASSERT":
                return st
            if report:
                for (o, c) in st:
                    if o == "valid" and c != 1:
                        viol.append((el, "a loop iteration advances the fixup iterator %s times" % ("0" if c == 0 else "2 or more")))
                    if o == "ctor" and c > 1:
                        viol.append((el, "the iterator is advanced more than once before its first validity test"))
            return frozenset({("valid", 0)}) if st else st
        return st

    def transfer(b, st):
        for el in fn.blocks[b]["elems"]:
            if isinstance(el, int):
                st = step(el, st, False)
        return st

    def join(states):
        s = set()
        for t in states:
            s |= t
        return frozenset(s)
    IN, OUT = forward(fn, frozenset(), transfer, join)
    for b in fn.blocks:
        if b in IN:
            st = IN[b]
            for el in fn.blocks[b]["elems"]:
                if isinstance(el, int):
                    st = step(el, st, True)
    return viol


def offset_format_rule(chk):
    R = "R-OFFSET-FORMAT-LITERALS"
    chk.rule(R, "every OffsetFormat construction site passes literals that satisfy the encoder's preconditions: value size in {1,2,4,8}, "
                "imm_bit_count + imm_bit_shift <= 8*value_size, ADR/ADRP use value size 4 / 21 bits / shift 5, reset_to_simple_value sizes in {1,2,4,8}")
    sites = [("asmjit/x86/x86assembler.cpp", r"x86::Assembler::_emit$"), ("asmjit/arm/a64assembler.cpp", r"a64::Assembler::_emit$"),
             ("asmjit/core/assembler.cpp", r"BaseAssembler::(embed_label|embed_label_delta)$")]
    n = 0
    for unit, rex in sites:
        f = chk.facts(unit, funcs=rex)
        for fn in cfg.load_functions(f):
            ords = {}
            for i, x in sorted(fn.calls(lambda x: x.get("cn") in ("reset_to_imm_value", "reset_to_simple_value") and "OffsetFormat" in x.get("cls", "")), key=lambda t: t[1]["l"]):
                args = [fn.e(fn.strip(a)) for a in x["args"]]
                vals = [a.get("cv") if a else None for a in args]
                names = [a.get("cvn") if a else None for a in args]
                o = ords.get(x["cn"], 0)
                ords[x["cn"]] = o + 1
                inst = "%s|%s#%d" % (fn.name.replace("asmjit::", ""), x["cn"], o)
                n += 1
                if x["cn"] == "reset_to_simple_value":
                    # (type, value_size)
                    vs = vals[1]
                    ok = vs is None or vs in (1, 2, 4, 8)
                    chk.ob(R, inst, ok, loc=fn.loc(i), detail="reset_to_simple_value with value size %s" % vs)
                else:
                    # (type, value_size, imm_bit_shift, imm_bit_count, imm_discard_lsb)
                    ty, vs, sh, cnt, dis = (names[0], vals[1], vals[2], vals[3], vals[4]) if len(vals) >= 5 else (None,) * 5
                    ok = True
                    det = []
                    if vs is not None and vs not in (1, 2, 4, 8):
                        ok = False; det.append("value size %s" % vs)
                    if None not in (vs, sh, cnt) and sh + cnt > 8 * vs:
                        ok = False; det.append("shift %s + count %s exceeds %s bits" % (sh, cnt, 8 * vs))
                    if cnt is not None and cnt == 0:
                        ok = False; det.append("zero bit count")
                    if ty in ("kAArch64_ADR", "kAArch64_ADRP") and (vs, sh, cnt) != (4, 5, 21):
                        ok = False; det.append("ADR/ADRP need (4, shift 5, 21 bits)")
                    if ty == "kAArch64_ADRP" and dis not in (None, 12):
                        ok = False; det.append("ADRP discards 12 bits")
                    if ty == "kAArch64_ADR" and dis not in (None, 0):
                        ok = False; det.append("ADR discards no bits")
                    chk.ob(R, inst, ok, loc=fn.loc(i), detail="OffsetFormat literal (%s): %s" % (", ".join(str(v) for v in (ty, vs, sh, cnt, dis)), "; ".join(det)))
    chk.floor(R + ":sites", n, 12)
