"""C09 — JitAllocator bookkeeping: accounting, guard and flag clauses (DESIGN.md section 3 / C09)."""
import re
from lib import cfg, core
from lib.must import Must

UNIT = "asmjit/core/jitallocator.cpp"
INV = {"+=": "-=", "-=": "+=", "++": "--", "--": "++"}


def updates_of(fn):
    """expr id -> (lvalue path, op, rhs text) for compound updates and ++/--."""
    out = {}
    for i, x in fn.ex.items():
        if x["k"] == "binop" and x["op"] in ("+=", "-="):
            p = fn.access_path(x["lhs"])
            if p:
                out[i] = (strip_root(p), x["op"], norm(fn.text(x["rhs"])))
        elif x["k"] == "unop" and x["op"] in ("++", "--"):
            p = fn.access_path(x["sub"])
            if p:
                out[i] = (strip_root(p), x["op"], "")
    return out


def path_must_after(fn, eid, pred):
    """True if on every path from element `eid` to the function exit some element satisfying pred occurs
    (pred may also hold before eid in the same block: only later elements count)."""
    pos = fn.block_of().get(eid)
    if not pos:
        return False
    b0, idx0 = pos
    elems = fn.blocks[b0]["elems"]
    for el in elems[idx0 + 1:]:
        if isinstance(el, int) and pred(el):
            return True
    # DFS over successors avoiding blocks that contain a satisfying element; reaching exit means a path without it
    has = {b: any(isinstance(el, int) and pred(el) for el in blk["elems"]) for b, blk in fn.blocks.items()}
    seen = set()
    stack = list(fn.succs(b0))
    while stack:
        b = stack.pop()
        if b in seen or has.get(b):
            continue
        seen.add(b)
        if b == fn.exit:
            return False
        stack.extend(fn.succs(b))
    return True


def strip_root(p):
    # this._pool.total_area_used[] / pool.total_area_used[] -> total_area_used[]
    return p.split(".")[-1]


def norm(t):
    return re.sub(r"\s+", "", t)


def must_updates(fn, only_success=False):
    """Updates executed on every path to the function's (success) exits."""
    ups = updates_of(fn)

    def elem_fx(eid, x):
        if eid in ups:
            return ((("upd",) + ups[eid],), ())
        return None

    m = Must(fn, elem_fx, None)
    res = None
    rets = list(fn.return_sites())
    pts = []
    if fn.raw.get("ret") == "void" or not rets:
        st = m.IN.get(fn.exit)
        if st is not None:
            pts.append(st)
    else:
        for b, idx, r in rets:
            x = fn.e(r)
            if only_success and x.get("cvn") != "kOk":
                continue
            st = m.before(r)
            if st is not None:
                pts.append(st)
    for st in pts:
        res = set(st) if res is None else res & set(st)
    return {u[1:] for u in (res or set()) if u[0] == "upd"}, ups


def run(chk):
    f = chk.facts(UNIT, funcs=r"asmjit::JitAllocator", tables=r"asmjit::JitAllocatorImpl_none$",
                  records=r"^asmjit::(JitAllocatorPool|JitAllocatorPrivateImpl|JitAllocator::Impl|JitAllocatorBlock)$")
    fns = {}
    for fo in f["functions"]:
        fn = cfg.Fn(fo)
        fns.setdefault(fn.name.replace("asmjit::", ""), fn)

    def need_fn(n):
        chk.need(n in fns, "function %s not found in %s" % (n, UNIT))
        return fns[n]

    rules = core.load_json("rules/c09.json")

    # ---------------------------------------------------------------- C09.a inverse pairs
    R = "R-INVERSE-PAIR"
    chk.rule(R, "the compound updates executed on all (success) paths of F are the operator-inverse of those of its partner")
    npairs = 0
    for pr in rules["inverse_pairs"]:
        a, b = need_fn(pr["f"]), need_fn(pr["g"])
        ua, _ = must_updates(a, pr.get("success_only", False))
        ub, _ = must_updates(b, pr.get("success_only", False))
        fields = pr.get("fields")
        cmp_rhs = pr.get("compare_rhs", False)

        def proj(s):
            out = set()
            for (lv, op, rhs) in s:
                if fields and lv.replace("[]", "") not in fields:
                    continue
                out.add((lv, op, rhs if cmp_rhs else ""))
            return out
        pa, pb = proj(ua), proj(ub)
        chk.need(len(pa) >= pr["min_updates"], "%s: only %d must-updates found (expected >= %d)" % (pr["f"], len(pa), pr["min_updates"]))
        inv_b = {(lv, INV[op], rhs) for (lv, op, rhs) in pb}
        for u in sorted(pa | inv_b):
            npairs += 1
            inst = "%s<->%s|%s%s" % (pr["f"], pr["g"], u[0], u[1])
            chk.ob(R, inst, u in pa and u in inv_b, loc="%s:%d" % (UNIT, (a if u in pa else b).line),
                   detail="update `%s %s %s` is performed by %s on all paths but its inverse is not performed by %s on all paths" % (
                       u[0], u[1] if u in pa else INV[u[1]], u[2], pr["f"] if u in pa else pr["g"], pr["g"] if u in pa else pr["f"]),
                   key="inversepair|" + inst)
    chk.floor(R + ":updates", npairs, 9)

    # ---------------------------------------------------------------- C09.a' who may write the counters
    R2 = "R-COUNTER-WRITERS"
    chk.rule(R2, "statistics counters are written only by their pair functions, constructors and the reset closure")
    allowed = rules["counter_writers"]
    nw = 0
    for name, fn in fns.items():
        for i, x in fn.ex.items():
            lhs = None
            if x["k"] == "binop" and x["op"].endswith("=") and x["op"] not in ("==", "!=", "<=", ">="):
                lhs = x["lhs"]
            elif x["k"] == "unop" and x["op"] in ("++", "--"):
                lhs = x["sub"]
            if lhs is None:
                continue
            p = fn.access_path(lhs)
            if not p:
                continue
            fld = p.split(".")[-1].replace("[]", "")
            if fld in allowed:
                nw += 1
                chk.ob(R2, "%s|%s" % (fld, name), name in allowed[fld], loc=fn.loc(i),
                       detail="%s writes counter `%s`; allowed writers: %s" % (name, fld, ", ".join(allowed[fld])))
    chk.floor(R2 + ":writes", nw, 15)

    R2b = "R-COUNTER-RESET"
    chk.rule(R2b, "every statistics counter is assigned in the reset closure (JitAllocator::reset, JitAllocatorPool::reset, "
                  "JitAllocatorBlock::clear_block)")
    reset_fns = [need_fn(n) for n in rules["reset_closure"]]
    assigned = set()
    for fn in reset_fns:
        for i, x in fn.ex.items():
            if x["k"] == "binop" and x["op"] == "=":
                p = fn.access_path(x["lhs"])
                if p:
                    assigned.add(p.split(".")[-1].replace("[]", ""))
    for fld in sorted(allowed):
        chk.ob(R2b, fld, fld in assigned, loc="%s:%d" % (UNIT, reset_fns[0].line),
               detail="counter `%s` is never assigned by the reset closure %s: it keeps accounting state of allocations that reset() invalidated" % (fld, rules["reset_closure"]),
               key="counterreset|" + fld)

    # ---------------------------------------------------------------- C09.b used bit tested before the stop-bit scan
    R3 = "R-USED-BEFORE-SCAN"
    chk.rule(R3, "every scan of _stop_bit_vector from a caller-derived index is reached only through the true edge of "
                 "bit_vector_get_bit(_used_bit_vector, same index) (sibling guard of release/shrink/query)")
    nscan = 0
    span_sites = []
    scan_helpers = {}
    for name, fn in fns.items():
        if "::" in name and not name.startswith("JitAllocator_") and not name.startswith("JitAllocatorBlock_"):
            continue
        for i, x in fn.calls(lambda x: x.get("cn") == "bit_vector_index_of"):
            if x.get("args") and "_stop_bit_vector" in fn.text(x["args"][0]) and len(x["args"]) > 1:
                ap = fn.access_path(x["args"][1])
                for k_, p_ in enumerate(fn.params):
                    if ap == p_["name"] and "Impl" not in name:
                        scan_helpers[name] = k_
    for name, fn in fns.items():
        scans = [(i, x) for i, x in fn.calls(lambda x: x.get("cn") == "bit_vector_index_of")
                 if x.get("args") and "_stop_bit_vector" in fn.text(x["args"][0])]
        # ... or through a unit-local helper that scans the stop bits from one of its parameters: judged at the call with that argument
        wrapped = []
        for i, x in fn.calls(lambda x: x["k"] == "call" and (x.get("callee") or "").replace("asmjit::", "") in scan_helpers):
            k_ = scan_helpers[(x.get("callee") or "").replace("asmjit::", "")]
            if k_ < len(x.get("args", [])):
                wrapped.append((i, {"args": [None, x["args"][k_]]}))
        if name in scan_helpers:
            scans = []          # the helper itself is judged at its call sites
        scans = scans + wrapped
        if not scans:
            continue

        def used_idx(atom):
            x = fn.e(atom)
            if x and x["k"] in ("call", "mcall") and x.get("cn") == "bit_vector_get_bit" and len(x.get("args", [])) >= 2 \
                    and "_used_bit_vector" in fn.text(x["args"][0]):
                return fn.access_path(x["args"][1])
            return None

        def conjuncts_of(g, e, depth=0):
            """conjuncts of a condition, bool locals of g with one initialiser resolved"""
            out, stack = [], [e]
            linit = {}
            for d_ in g.ex.values():
                if d_["k"] == "decl":
                    for v_ in d_["vars"]:
                        if v_.get("init") is not None and "bool" in (v_.get("ty") or ""):
                            linit[v_["did"]] = v_["init"]
            while stack:
                c = stack.pop()
                cx = g.e(c)
                while cx and cx["k"] in ("paren", "cast"):
                    c = cx["sub"]
                    cx = g.e(c)
                if cx and cx["k"] == "binop" and cx["op"] == "&&":
                    stack += [cx["lhs"], cx["rhs"]]
                elif cx and cx["k"] == "ref" and cx.get("did") in linit and depth < 3:
                    stack.append(linit[cx["did"]])
                else:
                    out.append(c)
            return out

        def helper_facts(ctx, atom, depth=0):
            """[(access path in ctx, kind)] established when the bool helper call `atom` (a method with one parameter or a unit-local
            free function) returns true: 'used' = the used bit of that index was tested, 'span-start' = also the stop bit of index - 1"""
            x = ctx.e(atom)
            if not (x and x["k"] in ("mcall", "call") and x.get("args")) or depth > 2:
                return []
            g = fns.get((x.get("callee") or "").replace("asmjit::", ""))
            if g is None or g is ctx or len(g.params) != len(x["args"]):
                return []
            rets = list(g.return_sites())
            if len(rets) != 1:
                return []
            body = g.e(rets[0][2]).get("val")
            pidx = {p_["name"]: k_ for k_, p_ in enumerate(g.params)}
            found = []      # (param name, kind)
            for c in conjuncts_of(g, body):
                cx = g.e(c)
                if cx and cx["k"] in ("call", "mcall") and cx.get("cn") == "bit_vector_get_bit" and "_used_bit_vector" in g.text(cx["args"][0]) \
                        and (g.access_path(cx["args"][1]) or "") in pidx:
                    found.append((g.access_path(cx["args"][1]), "used"))
                t = re.sub(r"\s+", "", g.text(c))
                for pn in pidx:
                    if re.search(r"bit_vector_get_bit\([^,]*_stop_bit_vector,%s-1\)" % re.escape(pn), t):
                        found.append((pn, "span-start"))
                for (pp, kd) in helper_facts(g, c, depth + 1):
                    if pp in pidx:
                        found.append((pp, kd))
            out = []
            for pn, kd in found:
                ap = ctx.access_path(x["args"][pidx[pn]])
                if ap:
                    out.append((ap, kd))
            return out

        def helper_idx(atom):
            facts = helper_facts(fn, atom)
            if not facts:
                return None, ()
            p0 = facts[0][0]
            return p0, tuple(kd for pp, kd in facts if pp == p0)

        def edge_fx(b, si, atom, holds):
            p = used_idx(atom)
            if p and holds:
                return [("used", p)]
            # a conjunction `aligned && block->is_span_start(idx)` stored in a bool: every conjunct holds on the true edge
            out = []
            if holds:
                stack = [atom]
                while stack:
                    c = stack.pop()
                    cx = fn.e(c)
                    while cx and cx["k"] in ("paren", "cast"):
                        c = cx["sub"]
                        cx = fn.e(c)
                    if cx and cx["k"] == "binop" and cx["op"] == "&&":
                        stack += [cx["lhs"], cx["rhs"]]
                        continue
                    q = used_idx(c)
                    if q:
                        out.append(("used", q))
                    hp, kinds = helper_idx(c)
                    for kd in kinds:
                        out.append((kd, hp))
            return out

        def elem_fx(eid, x):
            if x["k"] == "binop" and x["op"] == "=":
                p = fn.access_path(x["lhs"])
                if p:
                    return ((), (("used", p),))
            return None
        m = Must(fn, elem_fx, edge_fx, resolve_locals=True)
        for i, x in scans:
            nscan += 1
            p = fn.access_path(x["args"][1])
            st = m.before(i)
            ok = st is not None and ("used", p) in st
            chk.ob(R3, "%s|%s" % (name, p), ok, loc=fn.loc(i),
                   detail="%s scans the stop bits from `%s` without first testing that granule's used bit: a stale or foreign "
                          "pointer inside a block is accepted" % (name, p), key="usedscan|%s|%s" % (name, p))
            if name.split("::")[-1] in ("release", "query", "JitAllocatorImpl_shrink") or name.endswith("_shrink") or name.endswith("::release"):
                span_sites.append((name, fn, i, p, st is not None and ("span-start", p) in st))
    chk.floor(R3 + ":scans", nscan, 1)

    R3b = "R-SPAN-START-GUARD"
    chk.rule(R3b, "release(), shrink() and query() reach the stop-bit scan only after the unit "
                  "before the looked-up one was consulted (stop bit of index - 1, directly or through a block helper): a pointer into the "
                  "middle of a span is refused instead of splitting the span")
    for name, fn, i, p, ok in span_sites:
        chk.ob(R3b, "%s|%s" % (name, p), ok, loc=fn.loc(i),
               detail="%s frees / shrinks from `%s` without checking that it is the first unit of a span" % (name, p), key="spanstart|%s" % name)
    chk.floor(R3b + ":sites", len(span_sites), 3)

    # ---------------------------------------------------------------- C09.b' block pointer null-tested
    R4 = "R-BLOCK-NULL-TESTED"
    chk.rule(R4, "the block returned by tree.get() is dereferenced only on the edge where it is non-null")
    nget = 0
    for name, fn in fns.items():
        for i, x in fn.ex.items():
            if x["k"] != "decl":
                continue
            for v in x["vars"]:
                ini = fn.e(fn.strip(v["init"])) if v.get("init") else None
                if not (ini and ini["k"] == "mcall" and ini.get("cn") == "get" and "tree" in fn.text(ini.get("obj", 0))):
                    continue
                nget += 1
                var = v["name"]

                def edge_fx(b, si, atom, holds, var=var):
                    a = fn.e(atom)
                    if a and a["k"] == "ref" and a.get("name") == var and holds:
                        return [("nonnull", var)]
                    return ()
                m = Must(fn, None, edge_fx)
                bad = None
                for j, y in fn.ex.items():
                    if y["k"] == "member" and y.get("arrow"):
                        bx = fn.e(fn.strip(y["base"]))
                        if bx and bx["k"] == "ref" and bx.get("name") == var:
                            st = m.before(j)
                            if st is None:
                                # member nodes that are not CFG elements: look at the parent call
                                continue
                            if ("nonnull", var) not in st:
                                bad = j
                                break
                chk.ob(R4, "%s|%s" % (name, var), bad is None, loc=fn.loc(bad or i),
                       detail="`%s` from tree.get() is dereferenced on a path where it may be null" % var)
    chk.floor(R4 + ":gets", nget, 2)

    # ---------------------------------------------------------------- C09.b'' sentinel discipline
    R3b = "R-SENTINEL-PAIR"
    chk.rule(R3b, "a function that clears a range of used bits also clears a stop bit (the old sentinel) on every path, and one that "
                  "fills a range of used bits sets a stop bit: used/stop vectors are always updated together")
    npair = 0
    for name, fn in sorted(fns.items()):
        def kind_of(x):
            if x["k"] not in ("call", "mcall") or not x.get("args"):
                return None
            a0 = fn.text(x["args"][0])
            cn = x.get("cn")
            if cn == "bit_vector_clear" and "_used_bit_vector" in a0:
                return "clear-used"
            if cn == "bit_vector_fill" and "_used_bit_vector" in a0:
                return "fill-used"
            if cn == "bit_vector_set_bit" and "_stop_bit_vector" in a0 and len(x["args"]) >= 3:
                v = fn.e(fn.strip(x["args"][2]))
                if v is not None and "cv" in v:
                    return "stop-set" if v["cv"] else "stop-clear"
            return None
        kinds = {i: kind_of(x) for i, x in fn.ex.items()}
        if not any(k in ("clear-used", "fill-used") for k in kinds.values()):
            continue

        def elem_fx(eid, x):
            k = kinds.get(eid)
            return (((k,),), ()) if k else None
        m = Must(fn, elem_fx, None)
        st = m.IN.get(fn.exit) or frozenset()
        for need, have in (("clear-used", "stop-clear"), ("fill-used", "stop-set")):
            if (need,) in st or any(k == need for k in kinds.values()):
                npair += 1
                ok = ((need,) not in st) or ((have,) in st)
                # when the range update is conditional, require the sentinel update wherever the range update happened
                if (need,) not in st:
                    ok = True
                    for i, k in kinds.items():
                        if k == need:
                            after = Must(fn, lambda e, x, i=i: (((kinds.get(e),),), ()) if kinds.get(e) == have else None, None)
                            # sentinel update must happen on all paths from this call to exit: check facts at exit restricted to paths through i
                            ok = ok and path_must_after(fn, i, lambda e: kinds.get(e) == have)
                chk.ob(R3b, "%s|%s->%s" % (name, need, have), ok, loc="%s:%d" % (UNIT, fn.line),
                       detail="%s updates the used-bit range (%s) without the matching stop-bit update (%s) on every path" % (name, need, have),
                       key="sentinel|%s|%s" % (name, need))
    chk.floor(R3b + ":functions", npair, 3)

    # ---------------------------------------------------------------- C09.c initialised flag
    R5 = "R-INIT-FLAG"
    chk.rule(R5, "JitAllocator::is_initialized() evaluates to false on JitAllocatorImpl_none and to true on an implementation "
                 "created by JitAllocator_new_impl (whose tested field is assigned a non-zero value)")
    isinit = need_fn("JitAllocator::is_initialized")
    none = f["tables"].get("asmjit::JitAllocatorImpl_none")
    chk.need(none is not None and isinstance(none.get("value"), dict), "JitAllocatorImpl_none not dumped")
    rets = list(isinit.return_sites())
    chk.need(len(rets) == 1, "is_initialized: expected a single return")
    rv = isinit.e(isinit.e(rets[0][2])["val"])
    verdict = None
    shape = isinit.text(isinit.e(rets[0][2])["val"])
    if rv["k"] == "binop" and rv["op"] in ("==", "!="):
        l, r = isinit.e(isinit.strip(rv["lhs"])), isinit.e(isinit.strip(rv["rhs"]))
        if l["k"] != "member" and r["k"] == "member":
            l, r = r, l
        if l["k"] == "member" and "cv" in r:
            fld = l["field"]
            chk.need(fld in none["value"], "field %s not in JitAllocatorImpl_none" % fld)
            nv = none["value"][fld]
            on_none = (nv == r["cv"]) if rv["op"] == "==" else (nv != r["cv"])
            # value assigned by new_impl: must be provably different from the none value
            newimpl = need_fn("JitAllocator_new_impl")
            assigned = [x for i, x in newimpl.ex.items() if x["k"] == "binop" and x["op"] == "=" and (newimpl.access_path(x["lhs"]) or "").endswith("." + fld)]
            chk.need(len(assigned) >= 1, "JitAllocator_new_impl does not assign impl->%s" % fld)
            # assumption: the assigned value is non-zero (clamped to >= 64 KiB or the page granularity)
            on_real = (1 << 16 == r["cv"]) if rv["op"] == "==" else (1 << 16 != r["cv"])
            verdict = (on_none is False) and (on_real is True)
            chk.assumptions.append("impl->%s assigned by JitAllocator_new_impl is non-zero (clamped to >= 64 KiB or VirtMem page granularity)" % fld)
        elif "JitAllocatorImpl_none" in shape:
            verdict = rv["op"] == "!="
    chk.need(verdict is not None, "is_initialized() has an unrecognised shape: %s" % shape)
    chk.ob(R5, "JitAllocator::is_initialized", verdict, loc="asmjit/core/jitallocator.h:%d" % isinit.line,
           detail="`return %s` is true for the uninitialised implementation (JitAllocatorImpl_none) and false for a working one" % shape,
           key="initflag|JitAllocator::is_initialized")

    # ---------------------------------------------------------------- C09.d empty block policy
    R6 = "R-EMPTY-BLOCK-POLICY"
    chk.rule(R6, "writes of empty_block_count are ++/--/=1 only; in release() the ++ (keep the block) is reached only when the "
                 "count is zero and immediate release is off")
    rel = need_fn("JitAllocator::release")
    nwr = 0
    for name, fn in fns.items():
        for i, x in fn.ex.items():
            tgt = None
            form = None
            if x["k"] == "unop" and x["op"] in ("++", "--"):
                tgt, form = x["sub"], x["op"]
            elif x["k"] == "binop" and x["op"].endswith("=") and x["op"] not in ("==", "!=", "<=", ">="):
                tgt = x["lhs"]
                r = fn.e(fn.strip(x["rhs"]))
                form = "%s%s" % (x["op"], r.get("cv") if r else "?")
            if tgt is None:
                continue
            p = fn.access_path(tgt) or ""
            if p.endswith(".empty_block_count"):
                nwr += 1
                chk.ob(R6, "write|%s|%s" % (name, form), form in ("++", "--", "=1", "=0"), loc=fn.loc(i),
                       detail="empty_block_count written as `%s`" % form)
    chk.floor(R6 + ":writes", nwr, 3)

    def edge_fx(b, si, atom, holds):
        t = rel.text(atom)
        if not holds:
            if "empty_block_count" in t:
                return [("count_zero",)]
            if "kImmediateRelease" in t:
                return [("not_immediate",)]
        return ()
    m = Must(rel, None, edge_fx)
    incs = [i for i, x in rel.ex.items() if x["k"] == "unop" and x["op"] == "++" and (rel.access_path(x["sub"]) or "").endswith(".empty_block_count")]
    chk.need(len(incs) == 1, "release(): expected exactly one empty_block_count++")
    st = m.before(incs[0]) or frozenset()
    chk.ob(R6, "release|keep-branch", ("count_zero",) in st and ("not_immediate",) in st, loc=rel.loc(incs[0]),
           detail="empty_block_count++ (retain the empty block) is reachable when a block is already retained or immediate release is on")

    # ---------------------------------------------------------------- C09.e roll-back in new_block
    R7 = "R-ROLLBACK"
    chk.rule(R7, "in JitAllocator_new_block every failing (or not provably successful) exit reached after a VirtMem mapping call succeeded "
                 "releases the mapping on that path (path-sensitive), and each release primitive sits under the same kUseDualMapping "
                 "polarity as its acquire")
    from lib import rollback
    nb = need_fn("JitAllocator_new_block")
    acquire = {"alloc_dual_mapping": "release_dual_mapping", "alloc": "release"}
    viol, stats = rollback.check(nb, lambda x: "VirtMem" in x.get("callee", "") and x.get("cn") in acquire,
                                 lambda x: "VirtMem" in x.get("callee", "") and x.get("cn") in acquire.values())
    chk.ob(R7, "new_block|failing-exits", not viol, loc=nb.loc(viol[0][0]) if viol else "%s:%d" % (UNIT, nb.line),
           detail="failing exit of JitAllocator_new_block after the mapping was obtained does not release it (%d paths analysed)" % stats["paths"])

    def edge_fx(b, si, atom, holds):
        if "kUseDualMapping" in nb.text(atom):
            return [("dual", holds)]
        return ()
    m = Must(nb, None, edge_fx)
    nex = 1
    pol = {}
    for i2, x in nb.calls(lambda x: "VirtMem" in x.get("callee", "") and (x.get("cn") in acquire or x.get("cn") in acquire.values())):
        st = m.before(i2) or frozenset()
        d = [f[1] for f in st if f[0] == "dual"]
        pol.setdefault(x["cn"], set()).add(d[0] if len(d) == 1 else None)
    for acq, rel_ in acquire.items():
        chk.need(acq in pol, "JitAllocator_new_block no longer calls VirtMem::%s" % acq)
        nex += 1
        chk.ob(R7, "new_block|pairing|%s" % rel_, pol.get(rel_) == pol[acq] and None not in pol[acq], loc="%s:%d" % (UNIT, nb.line),
               detail="VirtMem::%s is called under kUseDualMapping=%s but VirtMem::%s under %s" % (acq, sorted(map(str, pol[acq])), rel_, sorted(map(str, pol.get(rel_, [])))))
    chk.floor(R7 + ":obligations", nex, 3)

    # ---------------------------------------------------------------- C09.f the free-space cache is rebuilt when a block becomes empty
    R8 = "R-EMPTY-CACHE-SIBLINGS"
    chk.rule(R8, "every site that sets JitAllocatorBlock::kFlagEmpty assigns, in the straight-line region that leads to it (callee assignments "
                 "included), the same free-space cache fields as its siblings (_largest_unused_area, _search_start, _search_end): an empty "
                 "block is always found by the next allocation")
    CACHE = ("_largest_unused_area", "_search_start", "_search_end")

    def plain_writes(fn, el):
        x = fn.e(el)
        out = set()
        if not x:
            return out
        if x["k"] == "binop" and x["op"] == "=":
            p = fn.access_path(x["lhs"]) or ""
            if p.split(".")[-1] in CACHE:
                out.add(p.split(".")[-1])
        elif x["k"] in ("mcall", "call"):
            g = fns.get((x.get("callee") or "").replace("asmjit::", ""))
            if g is not None and g is not fn:
                # fields assigned on every path of the callee
                def efx(eid, y, g=g):
                    if y["k"] == "binop" and y["op"] == "=":
                        q = (g.access_path(y["lhs"]) or "").split(".")[-1]
                        if q in CACHE:
                            return ((("w", q),), ())
                    return None
                mm = Must(g, efx, None)
                st = mm.IN.get(g.exit) or frozenset()
                out |= {f[1] for f in st}
        return out
    sites_e = []
    for sname, fn in fns.items():
        for i, x in fn.calls(lambda x: x.get("cn") == "add_flags"):
            if "kFlagEmpty" not in fn.text(i):
                continue
            pos = fn.block_of().get(i)
            if not pos:
                continue
            got = set()
            b, idx = pos
            elems = fn.blocks[b]["elems"][:idx]
            hops = 0
            while True:
                for el in elems:
                    if isinstance(el, int):
                        got |= plain_writes(fn, el)
                preds = fn.preds.get(b, [])
                if len(preds) != 1 or hops > 8:
                    break
                # stay inside the region guarded by the emptiness test: stop at a conditional branch's origin block
                pb = preds[0]
                if len([s_ for s_ in fn.blocks[pb]["succs"] if s_ is not None]) != 1:
                    break
                b = pb
                elems = fn.blocks[b]["elems"]
                hops += 1
            # elements after the call in the same block count as well (order inside the region is irrelevant)
            for el in fn.blocks[pos[0]]["elems"][pos[1]:]:
                if isinstance(el, int):
                    got |= plain_writes(fn, el)
            sites_e.append((sname, fn, i, got))
    chk.floor(R8 + ":set-empty-sites", len(sites_e), 2)
    want = set()
    for _, _, _, got in sites_e:
        want |= got
    for sname, fn, i, got in sites_e:
        chk.ob(R8, sname, got == want and len(want) >= 2, loc=fn.loc(i),
               detail="%s sets kFlagEmpty but assigns only %s of the free-space cache; a sibling site also assigns %s - the stale value makes "
                      "alloc() skip the emptied block" % (sname, sorted(got), sorted(want - got)),
               key="emptycache|%s" % sname)

    # ---------------------------------------------------------------- C09.g areas are counted in pool granules
    R9 = "R-AREA-UNIT"
    chk.rule(R9, "area indices and sizes are counted in granules of the block's pool: every conversion between areas and bytes multiplies or "
                 "shifts by the pool's granularity (JitAllocatorPool::granularity / granularity_log2, or a local copy of it); the allocator-wide "
                 "base granularity (JitAllocatorPrivateImpl::granularity) is never a conversion factor")
    nconv = 0
    for sname, fn in fns.items():
        loc_kind = {}
        for x in fn.ex.values():
            if x["k"] == "decl":
                for v in x["vars"]:
                    if v.get("init"):
                        for j in fn.walk(v["init"]):
                            y = fn.e(j)
                            if y["k"] == "member" and y.get("field") in ("granularity", "granularity_log2"):
                                loc_kind[v["did"]] = "impl" if "PrivateImpl" in (y.get("cls") or y.get("bty") or fn.text(y["base"])) or re.search(r"\bimpl\b", fn.text(y["base"])) else "pool"
        for i, x in fn.ex.items():
            if not (x["k"] == "binop" and x["op"] in ("*", ">>", "<<", "*=", ">>=", "<<=")):
                continue
            kinds = set()
            for side in ("lhs", "rhs"):
                if x["op"] in (">>", "<<", ">>=", "<<=") and side == "lhs":
                    continue
                for j in fn.walk(x[side]):
                    y = fn.e(j)
                    if y["k"] == "member" and y.get("field") in ("granularity", "granularity_log2"):
                        kinds.add("impl" if re.search(r"\bimpl\b", fn.text(y["base"])) else "pool")
                    elif y["k"] == "ref" and y.get("did") in loc_kind and y.get("name", "").startswith("granularity"):
                        kinds.add(loc_kind[y["did"]])
            if not kinds:
                continue
            # pool sizing (`impl->granularity << pool_id`) is not a conversion: the shifted value IS the base granularity
            if kinds == {"impl"} and x["op"] in ("<<", "<<="):
                continue
            involves_area = bool(re.search(r"area|range_|offset", fn.text(i)))
            if not involves_area:
                continue
            nconv += 1
            chk.ob(R9, "%s|%s" % (sname, " ".join(fn.text(i).split())[:48]), "impl" not in kinds, loc=fn.loc(i),
                   detail="`%s` converts an area quantity with the allocator's base granularity; areas of this block are counted in the pool's "
                          "granules (pools 1 and 2 use 2x and 4x the base)" % " ".join(fn.text(i).split())[:80],
                   key="areaunit|%s|%s" % (sname, re.sub(r"\s+", "", fn.text(i))[:48]))
    chk.floor(R9 + ":conversions", nconv, 6)

    # ---------------------------------------------------------------- C09.h the emptiness test is evaluated on every release path
    R10 = "R-EMPTY-TEST-ALL-PATHS"
    chk.rule(R10, "JitAllocatorBlock::mark_released_area: the comparison of area_used() with initial_area_start() is evaluated on every path "
                  "from entry to exit (must-analysis): whichever bookkeeping mode the block is in, a release that empties it is noticed")
    mra = need_fn("JitAllocatorBlock::mark_released_area")

    def efx(eid, x, fn=mra):
        if x["k"] == "binop" and x["op"] in ("==", "!=") and "area_used" in fn.text(eid) and "initial_area_start" in fn.text(eid):
            return ((("emptiness-tested",),), ())
        return None
    mm = Must(mra, efx, None)
    st_exit = mm.IN.get(mra.exit)
    chk.ob(R10, "JitAllocatorBlock::mark_released_area", st_exit is not None and ("emptiness-tested",) in st_exit, loc="%s:%d" % (UNIT, mra.line),
           detail="a path through mark_released_area never compares area_used() with initial_area_start(): a block emptied on that path is not "
                  "flagged empty, is never released and is not counted by the empty-block policy", key="emptytest|mark_released_area")

    # ---------------------------------------------------------------- C09.i wiping fills what was used
    R11 = "R-FILL-USED-RANGES"
    chk.rule(R11, "a function that fills ranges obtained from a BitVectorRangeIterator over `_used_bit_vector` with the fill pattern iterates the "
                  "set bits (template argument 1): wiping a block overwrites the areas that held code, not the free ones")
    nfill = 0
    for name, fn in sorted(fns.items()):
        if not any(True for i, x in fn.calls(lambda x: x.get("cn") == "JitAllocator_fill_pattern")):
            continue
        for i, x in fn.ex.items():
            if x["k"] != "decl":
                continue
            for v in x["vars"]:
                m_ = re.search(r"BitVectorRangeIterator<[^,>]+,\s*(\d+)\s*>", v.get("ty", ""))
                if m_ and v.get("init") and "_used_bit_vector" in fn.text(v["init"]):
                    nfill += 1
                    chk.ob(R11, "%s|%s" % (name, v["name"]), m_.group(1) == "1", loc=fn.loc(i),
                           detail="%s fills the ranges of `%s`, which iterates the %s bits of _used_bit_vector" % (name, v["name"], "clear" if m_.group(1) == "0" else "set"),
                           key="fillranges|%s" % name)
    chk.floor(R11 + ":iterators", nfill, 1)

    # ---------------------------------------------------------------- C09.j a block that is re-inserted has no stale links
    R12 = "R-REINSERT-LINKS-CLEARED"
    chk.rule(R12, "JitAllocator::reset: the block that survives a soft reset is handed to JitAllocatorImpl_insertBlock only after both of its "
                  "intrusive link pairs were cleared on that path (_list_nodes[0..1] of the pool list and _tree_nodes[0..1] of the address tree): "
                  "both containers were reset and the other blocks freed")
    rst = need_fn("JitAllocator::reset")
    ins = [(i, x) for i, x in rst.calls(lambda x: x.get("cn") == "JitAllocatorImpl_insertBlock" and len(x.get("args", [])) >= 2)]
    chk.need(len(ins) >= 1, "JitAllocator::reset no longer re-inserts the kept block")

    def lfx(eid, x, fn=rst):
        if x["k"] == "binop" and x["op"] == "=":
            r = fn.e(fn.strip(x["rhs"]))
            if r is not None and (r["k"] == "null" or r.get("cv") == 0):
                y = fn.e(fn.strip(x["lhs"]))
                if y and y["k"] == "subscript":
                    b_ = fn.e(fn.strip(y["base"]))
                    ix = fn.e(fn.strip(y["idx"]))
                    if b_ and b_["k"] == "member" and b_.get("field") in ("_list_nodes", "_tree_nodes") and ix is not None and isinstance(ix.get("cv"), int):
                        root = fn.access_path(b_["base"])
                        return ((("cleared", root, b_["field"], ix["cv"]),), ())
        return None
    ml = Must(rst, lfx, None)
    for k, (i, x) in enumerate(ins):
        root = rst.access_path(x["args"][1])
        st = ml.before(i) or frozenset()
        missing = [(f_, j) for f_ in ("_list_nodes", "_tree_nodes") for j in (0, 1) if ("cleared", root, f_, j) not in st]
        chk.ob(R12, "JitAllocator::reset|insertBlock(%s)" % root, not missing, loc=rst.loc(i),
               detail="`%s` is re-inserted with stale links %s: they still point at blocks that were just freed (use after free on the next "
                      "tree walk)" % (root, ["%s[%d]" % m_ for m_ in missing]), key="reinsertlinks|reset")

    # ---------------------------------------------------------------- the initial padding is part of the size a new block is chosen for
    RP = "R-PADDING-COUNTED"
    chk.rule(RP, "JitAllocator_calculate_ideal_block_size(): every comparison of the requested size with the candidate block size is reached only "
                 "after the pool granularity (the initial padding a fresh block reserves) was added to the request, or on the edge where the padding "
                 "is disabled: a block chosen for the unpadded size is one granule too small for the span that alloc() places in it")
    fp = chk.facts(UNIT, funcs=r"asmjit::JitAllocator_calculate_ideal_block_size$")
    gp = cfg.find_fn(fp, "JitAllocator_calculate_ideal_block_size")
    pdid = [p["did"] for p in gp.params if "size" in p["name"] and "size_t" in p["ty"]]
    chk.need(len(pdid) == 1, "calculate_ideal_block_size: size parameter not found")
    pdid = pdid[0]

    def pad_elem(eid, x):
        if x["k"] == "binop" and x["op"] == "+=":
            l = gp.e(gp.strip(x["lhs"]))
            if l is not None and l.get("did") == pdid and "granularity" in gp.text(x["rhs"]):
                return ((("padded",),), ())
        return None

    def pad_edge(b, si, atom, holds):
        x = gp.e(atom)
        if x is not None and x["k"] in ("call", "mcall") and x.get("cn") == "test" and "kDisableInitialPadding" in gp.text(atom) and holds:
            return [("padded",)]          # padding disabled: nothing to add
        return ()
    mp = Must(gp, pad_elem, pad_edge)
    ncmp = 0
    for i, x in sorted(gp.ex.items()):
        if x["k"] == "binop" and x["op"] in ("<", "<=", ">", ">="):
            dids = {(gp.e(j) or {}).get("did") for j in gp.walk(i) if (gp.e(j) or {}).get("k") == "ref"}
            names = {(gp.e(j) or {}).get("name") for j in gp.walk(i) if (gp.e(j) or {}).get("k") == "ref"}
            if pdid in dids and "block_size" in names:
                ncmp += 1
                j = i
                st = mp.before(j)
                pm = gp.parent_map()
                while st is None and j in pm:
                    j = pm[j]
                    st = mp.before(j)
                chk.ob(RP, "calculate_ideal_block_size|cmp@%d" % (gp.line_of(i) - gp.line), ("padded",) in (st or frozenset()), loc=gp.loc(i),
                       detail="`%s` compares the request with the block size before the initial padding was added to it" % " ".join(gp.text(i).split())[:50],
                       key="paddingcounted|%d" % ncmp)
    chk.floor(RP + ":comparisons", ncmp, 1)

    # ---------------------------------------------------------------- the internal shrink never sees a zero size
    RZ = "R-SHRINK-NONZERO"
    chk.rule(RZ, "every call of JitAllocatorImpl_shrink(impl, span, new_size, ...) is reached only on the edge where the value passed as new_size "
                 "was tested to be non-zero (shrinking to nothing is a release and is handled by the callers): the internal shrink marks "
                 "`[start + new_area, end)` as free and would clear the whole span while keeping it counted")
    fz = chk.facts(UNIT, funcs=r"asmjit::JitAllocator::[a-z_]+$")
    nz = 0
    for gz in cfg.load_functions(fz):
        callsz = [(i, x) for i, x in gz.calls(lambda x: x.get("cn") == "JitAllocatorImpl_shrink" and len(x.get("args", [])) >= 3)]
        if not callsz:
            continue

        def z_edge(b, si, atom, holds, gz=gz):
            x = gz.e(atom)
            if x is None:
                return ()
            if x["k"] == "binop" and x["op"] in ("==", "!="):
                l, r = gz.e(gz.strip(x["lhs"])), gz.e(gz.strip(x["rhs"]))
                for u, v in ((l, r), (r, l)):
                    if u is not None and v is not None and u["k"] == "ref" and v.get("cv") == 0 and (x["op"] == "!=") == holds:
                        return [("nonzero", u.get("did"))]
            if x["k"] == "ref" and holds:
                return [("nonzero", x.get("did"))]
            return ()

        def z_elem(eid, x, gz=gz):
            # anything that may change the variable: assignment, or being passed by reference (std::swap)
            kills = ()
            if x["k"] == "binop" and x["op"].endswith("=") and x["op"] not in ("==", "!=", "<=", ">="):
                l = gz.e(gz.strip(x["lhs"]))
                if l is not None and l["k"] == "ref":
                    kills = (("nonzero", l.get("did")),)
            elif x["k"] == "call" and x.get("cn") == "swap":
                kills = tuple(("nonzero", (gz.e(gz.strip(a)) or {}).get("did")) for a in x.get("args", []))
            return ((), kills) if kills else None
        mz = Must(gz, z_elem, z_edge)
        for i, x in callsz:
            a = gz.e(gz.strip(x["args"][2]))
            nz += 1
            ok = a is not None and a["k"] == "ref" and ("nonzero", a.get("did")) in (mz.before(i) or frozenset())
            chk.ob(RZ, "%s|JitAllocatorImpl_shrink" % gz.name.replace("asmjit::", ""), ok, loc=gz.loc(i),
                   detail="JitAllocatorImpl_shrink() can be called with a new size of zero here (e.g. a write() callback that truncates the span to "
                          "nothing): the span's bits are cleared but it stays counted and cannot be released", key="shrinknonzero|%s" % gz.name.replace("asmjit::", ""))
    chk.floor(RZ + ":calls", nz, 2)

    # ---------------------------------------------------------------- freed units are inside the search range afterwards
    RW = "R-RELEASE-WIDENS-SEARCH"
    chk.rule(RW, "JitAllocatorBlock::mark_released_area() / mark_shrunk_area(): every path through the function assigns both `_search_start` and "
                 "`_search_end` (min / max with the freed range, the incremental shortcut included): the range that alloc() scans always contains "
                 "the units that were just freed - a full block has _search_end = 0, and a path that moves only _search_start leaves its tail "
                 "unreachable")
    fw_all = chk.facts(UNIT, funcs=r"asmjit::JitAllocatorBlock::[a-z_0-9]+$")
    blk_methods = {g.name: g for g in cfg.load_functions(fw_all)}
    nw = 0
    _assigned_memo = {}

    def assigned_on_every_path(gw, depth=0):
        """fields of the search window that every path of gw to its exit assigns (directly or through another member function)"""
        if gw.name in _assigned_memo:
            return _assigned_memo[gw.name]
        _assigned_memo[gw.name] = set()

        def w_elem(eid, x, gw=gw):
            if x["k"] == "binop" and x["op"].endswith("=") and x["op"] not in ("==", "!=", "<=", ">="):
                t = re.sub(r"\s+", "", gw.text(x["lhs"]))
                for f_ in ("_search_start", "_search_end"):
                    if t.endswith(f_):
                        return ((("assigned", f_),), ())
            if x["k"] in ("mcall", "call") and x.get("callee") in blk_methods and x.get("callee") != gw.name and depth < 3:
                sub = assigned_on_every_path(blk_methods[x["callee"]], depth + 1)
                if sub:
                    return (tuple(("assigned", f_) for f_ in sorted(sub)), ())
            return None
        mw = Must(gw, w_elem, None)
        exits = [b for b in gw.preds.get(gw.exit, [])] if gw.exit is not None else []      # (aborting assertion blocks never reach the exit)
        st = None
        for b in exits:
            s_here = mw.at_block_end(b)
            if s_here is None:
                continue
            st = set(s_here) if st is None else (st & set(s_here))
        _assigned_memo[gw.name] = {f[1] for f in (st or set()) if f[0] == "assigned"}
        return _assigned_memo[gw.name]
    for gw in [g for n_, g in sorted(blk_methods.items()) if n_.endswith(("::mark_released_area", "::mark_shrunk_area"))]:
        st = {("assigned", f_) for f_ in assigned_on_every_path(gw)}
        for f_ in ("_search_start", "_search_end"):
            nw += 1
            chk.ob(RW, "%s|%s" % (gw.name.replace("asmjit::", ""), f_), ("assigned", f_) in (st or set()), loc="%s:%d" % (UNIT, gw.line),
                   detail="%s has a path that frees units without updating %s: the freed units can lie outside [_search_start, _search_end) and "
                          "are then never found by alloc()" % (gw.name.replace("asmjit::", ""), f_), key="widens|%s|%s" % (gw.name.split("::")[-1], f_))
    chk.floor(RW + ":fields", nw, 4)

    from lib import failpure
    failpure.run_wrapping_bounds(chk, [("asmjit/core/jitallocator.cpp", r"asmjit::JitAllocator[A-Za-z_0-9:]*$"), ("asmjit/core/virtmem.cpp", r"asmjit::VirtMem::[A-Za-z_0-9]+$"),
                                       ("asmjit/core/codeholder.cpp", r"asmjit::CodeHolder::(copy_section_data|copy_flattened_data|reserve_buffer|grow_buffer)$")],
                                 fixture="/verif/fixtures/asmjit/wrapping_bound.cpp")

    from lib import spanblock
    spanblock.run(chk)

    return chk.finish(
        level="other",
        explanation=("Accounting / guard / flag rules over asmjit/core/jitallocator.{h,cpp}: inverse-paired statistics updates on all "
                     "paths, counter writers, used-bit test before every stop-bit scan, null test of looked-up blocks, the initialised "
                     "flag evaluated on the null implementation, empty-block retention branch, mapping roll-back on failure. "
                     "Does not decide disjointness/alignment/content over allocation histories."))
