"""C18 — arena containers and the string class: the one clause that is visible in the shape of the code - formatted output never
overruns its buffer ("reports failures instead of overrunning", "null termination") - DESIGN.md section 3 / C18."""
from lib import snprintfrule


def run(chk):
    snprintfrule.run(chk, units=["asmjit/core/string.cpp", "asmjit/support/arena.cpp"], floor=4)
    from lib import resizefill
    resizefill.run(chk)
    from lib import danglink
    danglink.run(chk)
    from lib import forwarders
    forwarders.run(chk)
    from lib import assignempty
    assignempty.run(chk)
    from lib import arenareset
    arenareset.run(chk)
    from lib import bitsetgrow
    bitsetgrow.run(chk)
    return chk.finish(
        level="other",
        explanation=("Decides one structural clause of C18 on /repo's current source: in String::_op_vformat() and Arena::sformat() the value "
                     "returned by vsnprintf() - the length the output would have had - reaches a subscript of the formatted buffer, a copy that "
                     "receives the buffer, or the size update after formatting in place only where linear reasoning over the dominating "
                     "comparisons and min() bounds shows that it stays inside the size the call was given. Does not decide the abstract-data-type "
                     "behaviour of the containers under operation histories."))
