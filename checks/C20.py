"""C20 — formatter / logger fidelity: name-table clauses (DESIGN.md section 3 / C20)."""
import re
from lib import cfg, core, nametables
from lib.must import Must


def cstr(arr, off):
    out = []
    while off < len(arr) and arr[off] != 0:
        out.append(chr(arr[off] & 0xFF))
        off += 1
    return "".join(out)


def run(chk):
    # ---------------------------------------------------------------- C20.b x86 register names
    R = "R-REG-NAMES"
    chk.rule(R, "for every x86 register type and every id below the type's count, the name selected from reg_format_info by the constants "
                "format_register uses (special stride, segment base) equals the architectural register name (exhaustive)")
    UX = "asmjit/x86/x86formatter.cpp"
    f = chk.facts(UX, funcs=r"x86::FormatterInternal::(format_register|format_operand)$", tables=r"asmjit::x86::reg_format_info$", enums=r"asmjit::RegType$")
    info = f["tables"].get("asmjit::x86::reg_format_info")
    chk.need(info is not None and "value" in info, "reg_format_info not dumped")
    info = info["value"]
    regt = {n: v for n, v in f["enums"]["asmjit::RegType"]["enumerators"]}
    fr = cfg.find_fn(f, "FormatterInternal::format_register")
    stride = None
    for x in fr.ex.values():
        if x["k"] == "binop" and x["op"] == "*" and re.sub(r"\s+", "", fr.text(x["lhs"])) == "id":
            r = fr.e(fr.strip(x["rhs"]))
            if r is not None and "cv" in r:
                stride = r["cv"]
    chk.need(stride is not None, "format_register: `id * <stride>` not found")
    gp = ["ax", "cx", "dx", "bx", "sp", "bp", "si", "di"]
    oracle = {
        "kGp8Lo": ["al", "cl", "dl", "bl", "spl", "bpl", "sil", "dil"] + ["r%db" % i for i in range(8, 32)],
        "kGp8Hi": ["ah", "ch", "dh", "bh"],
        "kGp16": gp + ["r%dw" % i for i in range(8, 32)],
        "kGp32": ["e" + g for g in gp] + ["r%dd" % i for i in range(8, 32)],
        "kGp64": ["r" + g for g in gp] + ["r%d" % i for i in range(8, 32)],
        "kVec128": ["xmm%d" % i for i in range(32)], "kVec256": ["ymm%d" % i for i in range(32)], "kVec512": ["zmm%d" % i for i in range(32)],
        "kMask": ["k%d" % i for i in range(8)], "kX86_Mm": ["mm%d" % i for i in range(8)], "kX86_St": ["st%d" % i for i in range(8)],
        "kSegment": [None, "es", "cs", "ss", "ds", "fs", "gs"],
        "kControl": ["cr%d" % i for i in range(16)], "kDebug": ["dr%d" % i for i in range(16)],
        "kX86_Bnd": ["bnd%d" % i for i in range(4)], "kTile": ["tmm%d" % i for i in range(8)], "kPC": ["rip"],
    }
    ns = info["name_strings"]
    n = 0
    for tname, names in oracle.items():
        chk.need(tname in regt, "RegType::%s missing" % tname)
        ent = info["name_entries"][regt[tname]]
        chk.ob(R, "%s|count" % tname, ent["count"] == len(names), loc=UX, detail="RegType::%s has %d names in the table, the architecture has %d" % (tname, ent["count"], len(names)))
        for rid, want in enumerate(names):
            if want is None:
                continue
            if rid < ent["special_count"]:
                got = cstr(ns, ent["special_index"] + rid * stride)
            elif rid < ent["count"]:
                got = cstr(ns, ent["format_index"]).replace("%u", str(rid))
            else:
                got = None
            n += 1
            chk.ob(R, "%s|%d" % (tname, rid), got == want, loc=UX, detail="RegType::%s id %d is printed as `%s`, architectural name is `%s`" % (tname, rid, got, want))
    chk.floor(R + ":names", n, 300)
    # segment prefix of memory operands: name_strings + <base> + seg * <stride>
    fo = cfg.find_fn(f, "FormatterInternal::format_operand")
    seg = [x for x in fo.ex.values() if x["k"] in ("call", "mcall") and x.get("cn") == "append_format" and x.get("args") and "%s:" in fo.text(x["args"][0])]
    chk.need(len(seg) == 1, "format_operand: segment override formatting not found")
    consts = sorted({y["cv"] for j in fo.walk(seg[0]["args"][1]) for y in [fo.e(j)] if y["k"] == "int" and "cv" in y})
    sent = info["name_entries"][regt["kSegment"]]
    chk.ob(R, "segment-override-base", sent["special_index"] in consts and stride in consts, loc=UX,
           detail="format_operand indexes segment names with constants %s; the table's segment names start at %d with stride %d" % (consts, sent["special_index"], stride))

    # ---------------------------------------------------------------- C20.a enumerator <-> text
    R2 = "R-ENUM-TEXT"
    chk.rule(R2, "where a formatter maps an enumeration to text (switch of string literals / packed table indexed by the value) the text is the "
                 "lower-cased enumerator name without its k prefix")
    UA = "asmjit/arm/armformatter.cpp"
    fa = chk.facts(UA, funcs=r"arm::FormatterInternal::(format_shift_op|format_cond_code)$", tables=r"cond_code_string_data$", enums=r"asmjit::arm::(ShiftOp|CondCode)$")
    fs = cfg.find_fn(fa, "FormatterInternal::format_shift_op")
    nso = 0
    for b in fs.blocks.values():
        lab = b.get("label")
        if not lab or lab.get("kind") != "case":
            continue
        lit = None
        for el in b["elems"]:
            if isinstance(el, int):
                x = fs.e(el)
                if x["k"] == "binop" and x["op"] == "=":
                    r = fs.e(fs.strip(x["rhs"]))
                    if r and r["k"] == "str":
                        lit = r["val"]
        nso += 1
        want = lab.get("name", "")[1:].lower()
        chk.ob(R2, "format_shift_op|%s" % lab.get("name"), lit == want, loc="%s:%d" % (UA, lab["l"]), detail="ShiftOp::%s is printed as `%s`" % (lab.get("name"), lit))
    chk.floor(R2 + ":shift-ops", nso, 14)
    cct = None
    for k, v in fa["tables"].items():
        if k.endswith("cond_code_string_data"):
            cct = v.get("value")
    chk.need(isinstance(cct, list), "cond_code_string_data not dumped")
    cc = fa["enums"].get("asmjit::arm::CondCode")
    chk.need(cc is not None, "arm::CondCode not found")
    fcc = cfg.find_fn(fa, "FormatterInternal::format_cond_code")
    mult = [fcc.e(fcc.strip(x["rhs"])).get("cv") for x in fcc.ex.values() if x["k"] == "binop" and x["op"] == "*"]
    chk.need(len(mult) == 1 and mult[0], "format_cond_code: index multiplier not found")
    by_val = {}
    for name, val in cc["enumerators"]:
        if val <= 15 and re.match(r"^k[A-Z]{2}$", name):
            by_val.setdefault(val, []).append(name[1:].lower())
    ncc = 0
    for val, names in sorted(by_val.items()):
        ncc += 1
        got = cstr(cct, val * mult[0])
        chk.ob(R2, "format_cond_code|%d" % val, got in names, loc=UA, detail="CondCode value %d (%s) is printed as `%s`" % (val, "/".join(names), got))
    chk.floor(R2 + ":cond-codes", ncc, 14)

    # ---------------------------------------------------------------- C20.a' instruction mnemonics (shared decoding with C13.b)
    nametables.run(chk, "x86", "asmjit/x86/x86instdb.cpp", "asmjit/x86/x86instapi.cpp", rule="R-NAME-INDEX")
    nametables.run(chk, "a64", "asmjit/arm/a64instdb.cpp", "asmjit/arm/a64instapi.cpp", rule="R-NAME-INDEX")

    # ---------------------------------------------------------------- C20.c machine-code column
    R3 = "R-MACHINE-CODE-COLUMN"
    chk.rule(R3, "log_instruction_emitted hands finish_formatted_line the emitter's buffer pointer and `after_cursor - buffer_ptr()` as the "
                 "byte range, and both assemblers call it with the writer's cursor before writer.done() commits the bytes")
    UE = "asmjit/core/emitterutils.cpp"
    fe = chk.facts(UE, funcs=r"EmitterUtils::log_instruction_emitted$")
    le = cfg.find_fn(fe, "EmitterUtils::log_instruction_emitted")
    calls = [(i, x) for i, x in le.calls(lambda x: x.get("cn") == "finish_formatted_line")]
    chk.need(len(calls) >= 1, "log_instruction_emitted no longer calls finish_formatted_line")
    from lib.linear import Sym
    sym = Sym(le)
    okc = False
    for i, x in calls:
        a2 = re.sub(r"\s+", "", le.text(x["args"][2]))
        if a2 in ("nullptr", "0"):
            continue
        size = sym.lin(x["args"][3], i)
        txt = repr(size)
        okc = "buffer_ptr()" in a2 and "+1*after_cursor" in txt and "-1*self->buffer_ptr()" in txt.replace("this->", "") and size.c == 0
        chk.ob(R3, "log_instruction_emitted|range", okc, loc=le.loc(i),
               detail="machine-code column is fed (%s, %s) instead of (buffer_ptr(), after_cursor - buffer_ptr())" % (a2, txt))
    for unit, name in (("asmjit/x86/x86assembler.cpp", "x86::Assembler::_emit"), ("asmjit/arm/a64assembler.cpp", "a64::Assembler::_emit")):
        fx = chk.facts(unit, funcs="asmjit::" + name + "$")
        fn = cfg.find_fn(fx, name)

        def elem_fx(eid, x):
            if x["k"] == "mcall" and x.get("cn") == "done" and "Writer" in x.get("cls", ""):
                return ((("done",),), ())
            return None
        m = Must(fn, elem_fx, None)
        lg = [(i, x) for i, x in fn.calls(lambda x: x.get("cn") == "log_instruction_emitted")]
        chk.need(len(lg) >= 1, "%s no longer calls log_instruction_emitted" % name)
        for i, x in lg:
            st = m.before(i) or frozenset()
            last = re.sub(r"\s+", "", fn.text(x["args"][-1]))
            chk.ob(R3, "%s|log-before-done" % name, ("done",) not in st and last.endswith("writer.cursor()"), loc=fn.loc(i),
                   detail="log_instruction_emitted(.., %s) is not called with writer.cursor() before writer.done()" % last)

    # ---------------------------------------------------------------- C20.d label text uses the id whose entry was inspected
    R4 = "R-LABEL-ID-TEXT"
    chk.rule(R4, "format_label: an `L%u` printed because an entry has no name uses the id that entry was looked up with")
    UF = "asmjit/core/formatter.cpp"
    ff = chk.facts(UF, funcs=r"Formatter::format_label$")
    fl = cfg.find_fn(ff, "Formatter::format_label")
    entry_id = {}
    for x in fl.ex.values():
        if x["k"] == "decl":
            for v in x["vars"]:
                ini = fl.e(fl.strip(v["init"])) if v.get("init") else None
                if ini and ini["k"] in ("call", "mcall") and ini.get("cn") == "label_entry_of":
                    entry_id[v["name"]] = re.sub(r"\s+", "", fl.text(ini["args"][0]))

    def edge_fx(b, si, atom, holds):
        a = fl.e(atom)
        if a and a["k"] == "mcall" and a.get("cn") == "has_name" and a.get("obj"):
            o = fl.e(fl.strip(a["obj"]))
            if o and o["k"] == "ref":
                return [("named" if holds else "unnamed", o["name"])]
        return ()
    m = Must(fl, None, edge_fx)
    nl = 0
    for i, x in fl.calls(lambda x: x.get("cn") == "append_format" and x.get("args") and "L%u" in fl.text(x["args"][0])):
        st = m.before(i) or frozenset()
        unn = [f[1] for f in st if f[0] == "unnamed"]
        # innermost entry: the one whose test is the closest dominating has_name()
        arg = re.sub(r"\s+", "", fl.text(x["args"][1]))
        cands = [entry_id.get(e) for e in unn if e in entry_id]
        nl += 1
        if cands:
            ok = arg in cands and (len(cands) == 1 or arg == entry_id.get(innermost(fl, m, i, unn)))
        else:
            ok = arg == "label_id"      # no unnamed entry on this path: the label being formatted
        chk.ob(R4, "format_label|L%%u#%d" % nl, ok, loc=fl.loc(i),
               detail="`L%%u` is printed with `%s`; the unnamed entry on this path was looked up with %s (else the formatted label's own id is expected)" % (arg, cands))
    chk.floor(R4 + ":sites", nl, 2)

    # ---------------------------------------------------------------- C20.e address terms are separated
    R5 = "R-ADDRESS-TERM-SEPARATOR"
    chk.rule(R5, "x86 format_operand, memory branch: between two printed address terms (base, index, displacement) a sign/separator character "
                 "is appended on every feasible path (typestate: term -> separator -> term; the separator variable's non-zero-ness is tracked)")
    sep_viol = separator_typestate(fo)
    chk.ob(R5, "x86::format_operand|term-separator", not sep_viol, loc=fo.loc(sep_viol[0]) if sep_viol else UX,
           detail="an address term is printed directly after another one without a separator (e.g. `[rcx*8256]`): %s" % (fo.text(sep_viol[0])[:60] if sep_viol else ""),
           key="separator|x86::format_operand")

    # ---------------------------------------------------------------- C20.d the hex column tiles the instruction bytes
    R6 = "R-HEX-COLUMN-TILES"
    chk.rule(R6, "finish_formatted_line: the bytes shown before and after the `..` placeholder tile the instruction - the first hex run starts "
                 "at bin_data, the last one ends at bin_data + bin_size, and the run lengths plus the placeholder count add up to bin_size "
                 "(linear forms over the parameters, locals replaced by their reaching definitions)")
    from lib.linear import Sym, Lin
    ffl_f = chk.facts(UE, funcs=r"EmitterUtils::finish_formatted_line$")
    ffl = cfg.find_fn(ffl_f, "EmitterUtils::finish_formatted_line")
    sym = Sym(ffl)
    hexes = sorted([(i, x) for i, x in ffl.calls(lambda x: x.get("cn") == "append_hex" and len(x.get("args", [])) >= 2)], key=lambda t: (t[1]["l"], t[0]))
    dots = [(i, x) for i, x in ffl.calls(lambda x: x.get("cn") == "append_chars" and len(x.get("args", [])) == 2 and "'.'" in ffl.text(x["args"][0]))]
    chk.need(len(hexes) == 2 and len(dots) == 1, "finish_formatted_line: expected two append_hex calls around one placeholder run (found %d / %d)" % (len(hexes), len(dots)))
    (h0, x0), (h1, x1) = hexes
    p0, n0 = sym.lin(x0["args"][0], h0), sym.lin(x0["args"][1], h0)
    p1, n1 = sym.lin(x1["args"][0], h1), sym.lin(x1["args"][1], h1)
    k = sym.lin(dots[0][1]["args"][1], dots[0][0])
    base, size = Lin(0, {"bin_data": 1}), Lin(0, {"bin_size": 1})
    half_k = Lin(k.c // 2, {a: v // 2 for a, v in k.t.items()}) if k.c % 2 == 0 and all(v % 2 == 0 for v in k.t.values()) else None
    chk.ob(R6, "first-run-starts-at-bin_data", p0.key() == base.key(), loc=ffl.loc(h0), detail="first hex run starts at %r" % p0)
    chk.ob(R6, "last-run-ends-at-end", p1.add(n1).key() == base.add(size).key(), loc=ffl.loc(h1),
           detail="the last hex run covers [%r, +%r) which does not end at bin_data + bin_size: the immediate bytes shown are not the instruction's last bytes" % (p1, n1),
           key="hexcolumn|last-run")
    chk.ob(R6, "lengths-add-up", half_k is not None and n0.add(half_k).add(n1).key() == size.key(), loc=ffl.loc(h0),
           detail="run lengths %r + %r placeholders/2 + %r do not add up to bin_size" % (n0, k, n1), key="hexcolumn|sum")

    # ---------------------------------------------------------------- C20.e a register is printed with its own type
    R7 = "R-TYPE-ID-PAIR"
    chk.rule(R7, "formatters: wherever a call receives `<x>_type()` and `<y>_id()` of the same memory operand, x == y (base with base, index with "
                 "index): a register is never printed with the other register's size")
    npair = 0
    for unit in ("asmjit/arm/armformatter.cpp", "asmjit/x86/x86formatter.cpp", "asmjit/core/formatter.cpp"):
        ff = chk.facts(unit, funcs=r"asmjit::[A-Za-z_0-9:]*(format|Format)[A-Za-z_0-9:]*$")
        for fn in cfg.load_functions(ff):
            for i, x in fn.calls():
                kinds = {}
                for a in x.get("args", []):
                    y = fn.e(fn.strip(a))
                    if y and y["k"] == "mcall" and y.get("obj") and re.match(r"^(base|index)_(type|id)$", y.get("cn") or ""):
                        who, what = y["cn"].split("_")
                        kinds.setdefault((fn.access_path(y["obj"]) or fn.text(y["obj"])), {})[what] = who
                for obj, d in kinds.items():
                    if "type" in d and "id" in d:
                        npair += 1
                        chk.ob(R7, "%s|%s(%s)#%d" % (fn.name.replace("asmjit::", ""), x.get("cn"), obj, npair), d["type"] == d["id"], loc=fn.loc(i),
                               detail="`%s` pairs %s_type() with %s_id()" % (" ".join(fn.text(i).split())[:80], d["type"], d["id"]),
                               key="typeidpair|%s|%d" % (fn.name.replace("asmjit::", ""), npair))
    chk.floor(R7 + ":pairs", npair, 3)

    from lib import snprintfrule, logorder, deabstract
    snprintfrule.run(chk)
    logorder.run(chk)
    deabstract.run(chk)
    from lib import sizekeyword
    sizekeyword.run(chk)
    from lib import a64regnames
    a64regnames.run(chk)
    from lib import fmtoffset
    fmtoffset.run(chk)
    return chk.finish(
        level="other", exhaustive=False,
        explanation=("Name-table clauses of the formatters in /repo's current source: every x86 register name for every (type, id) equals the "
                     "architectural name (exhaustive, ~340 names, constants read from the reader); ARM shift-op and condition-code texts equal "
                     "their enumerators; every instruction id of both back ends decodes to its enumerator's mnemonic; the machine-code column is "
                     "fed from the writer's byte range before it is committed; unnamed-label text uses the id it was looked up with. Does not "
                     "decide operand rendering for every value or flag combination."))


def separator_typestate(fn):
    """Forward analysis over (pending term may be unterminated, op_sign known non-zero).  Returns offending call ids."""
    from lib.cfg import forward
    from lib.must import branch_atoms
    atoms = branch_atoms(fn)
    TERMS = ("format_register", "format_label", "append_uint")
    # only the memory branch: elements after the `char op_sign` declaration
    start_line = None
    sign_did = None
    for x in fn.ex.values():
        if x["k"] == "decl":
            for v in x["vars"]:
                if v["name"] == "op_sign":
                    start_line, sign_did = x["l"], v["did"]
    if sign_did is None:
        return [0]
    end_line = min([x["l"] for x in fn.ex.values() if x["k"] == "return" and x["l"] > start_line and "']'" in fn.text(x.get("val", 0))] or [10 ** 9])
    viol = []

    def step1(el, pr, report):
        pending, nz = pr
        x = fn.e(el)
        if not x or not (start_line <= x["l"] <= end_line):
            return pr
        if x["k"] == "decl":
            for v in x["vars"]:
                if v["did"] == sign_did:
                    iv = fn.e(fn.strip(v["init"])) if v.get("init") else None
                    return (False, bool(iv is not None and iv.get("cv")))
        if x["k"] == "binop" and x["op"] == "=":
            l = fn.e(fn.strip(x["lhs"]))
            if l and l.get("did") == sign_did:
                r = fn.e(fn.strip(x["rhs"]))
                return (pending, bool(r is not None and r.get("cv")))
        if x["k"] in ("call", "mcall"):
            cn = x.get("cn")
            if cn == "append" and x.get("args"):
                a = fn.e(fn.strip(x["args"][0]))
                if a and a.get("did") == sign_did:
                    return (False, nz)
            if cn in TERMS:
                if pending and report:
                    viol.append(el)
                return (True, nz)
        return pr

    def step(el, st, report):
        return frozenset(step1(el, pr, report) for pr in st)

    def transfer(b, st):
        for el in fn.blocks[b]["elems"]:
            if isinstance(el, int):
                st = step(el, st, False)
        return st

    def edge(b, si, succ, st):
        if b in atoms:
            atom, pol = atoms[b]
            a = fn.e(atom)
            if a and a["k"] == "ref" and a.get("did") == sign_did:
                holds = (si == 0) == pol
                return frozenset(pr for pr in st if pr[1] == holds)   # op_sign is exactly zero / non-zero per path state
        return st

    def join(states):
        s = set()
        for t in states:
            s |= t
        return frozenset(s)
    IN, OUT = forward(fn, frozenset({(False, False)}), transfer, join, edge=edge)
    for b in fn.blocks:
        if b in IN:
            st = IN[b]
            for el in fn.blocks[b]["elems"]:
                if isinstance(el, int):
                    st = step(el, st, True)
    return viol


def innermost(fn, m, call_id, unnamed):
    """Entry variable whose has_name() test is closest (by line) above the call."""
    best = None
    for x in fn.ex.values():
        if x["k"] == "mcall" and x.get("cn") == "has_name" and x.get("obj"):
            o = fn.e(fn.strip(x["obj"]))
            if o and o["k"] == "ref" and o["name"] in unnamed and x["l"] <= fn.line_of(call_id):
                if best is None or x["l"] > best[0]:
                    best = (x["l"], o["name"])
    return best[1] if best else None
