"""C16 — reset / reinit / reuse leave no residue: structural clauses (DESIGN.md section 3 / C16)."""
from lib import resetcovers, core


def run(chk):
    cfgj = core.load_json("rules/reset_covers.json")
    resetcovers.run(chk, cfgj)
    return chk.finish(
        level="other",
        explanation=("Reset-closure coverage over /repo's current source: for each class that owns arena-backed containers or "
                     "pointers into arena memory, every such member is reset in the call closure of each reset entry point "
                     "(computed from class fields, resolved callees and field writes). Does not decide byte equality of recycled vs fresh generation."))
