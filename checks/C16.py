"""C16 — reset / reinit / reuse leave no residue: structural clauses (DESIGN.md section 3 / C16)."""
from lib import resetcovers, core, cfg
from lib.must import Must


def run(chk):
    cfgj = core.load_json("rules/reset_covers.json")
    resetcovers.run(chk, cfgj)
    resetcovers.run_embedded(chk, cfgj)
    # C16.b every override of the emitter event handlers runs its base handler on every path
    R2 = "R-CALLS-BASE"
    chk.rule(R2, "every override of on_attach / on_detach / on_reinit calls the handler it overrides on every path to each of its returns "
                 "(the base handlers are the ones that clear the one-shot state and the containers checked by R-RESET-COVERS)")
    units = ["asmjit/core/assembler.cpp", "asmjit/core/builder.cpp", "asmjit/core/compiler.cpp", "asmjit/x86/x86assembler.cpp", "asmjit/x86/x86builder.cpp",
             "asmjit/x86/x86compiler.cpp", "asmjit/arm/a64assembler.cpp", "asmjit/arm/a64builder.cpp", "asmjit/arm/a64compiler.cpp"]
    nov = 0
    for u in units:
        f = chk.facts(u, funcs=r"::(on_attach|on_detach|on_reinit)$")
        for fn in cfg.load_functions(f):
            ov = fn.raw.get("overrides") or []
            if not ov or not fn.file.endswith(u.split("/")[-1]):
                continue
            base = ov[0]

            def elem_fx(eid, x, base=base):
                if x["k"] in ("call", "mcall") and x.get("callee") == base:
                    return ((("base",),), ())
                return None
            m = Must(fn, elem_fx, None)
            ok = True
            where = None
            for b, idx, r in fn.return_sites():
                if ("base",) not in (m.before(r) or frozenset()):
                    # `return Base::on_detach(code);` evaluates the call inside the return expression
                    v = fn.e(fn.strip(fn.e(r).get("val", 0))) if fn.e(r).get("val") else None
                    if v and v["k"] in ("call", "mcall") and v.get("callee") == base:
                        continue
                    ok, where = False, r
            nov += 1
            sn = fn.name.replace("asmjit::", "")
            chk.ob(R2, sn, ok, loc=fn.loc(where) if where else "%s:%d" % (u, fn.line),
                   detail="%s can return without having called %s" % (sn, base.replace("asmjit::", "")), key="callsbase|" + sn)
    chk.floor(R2 + ":overrides", nov, 18)

    # ---------------------------------------------------------------- C16.d address independence of the code-generation pipeline
    R3 = "R-NO-POINTER-ORDER"
    chk.rule(R3, "in the code-generation units (CodeHolder, emitters, Builder/Compiler, register allocator, stack/argument helpers, formatter) "
                 "no relational comparison (< > <= >=) has object pointers on both sides - only byte cursors of one buffer are compared: what is "
                 "generated never depends on where the arena happened to place a node (a recycled and a fresh holder generate the same code)")
    UNITS = ["asmjit/core/codeholder.cpp", "asmjit/core/builder.cpp", "asmjit/core/compiler.cpp", "asmjit/core/rapass.cpp", "asmjit/core/ralocal.cpp",
             "asmjit/core/rastack.cpp", "asmjit/core/constpool.cpp", "asmjit/core/emitter.cpp", "asmjit/core/assembler.cpp",
             "asmjit/core/funcargscontext.cpp", "asmjit/core/emithelper.cpp", "asmjit/core/func.cpp", "asmjit/core/formatter.cpp",
             "asmjit/x86/x86rapass.cpp", "asmjit/arm/a64rapass.cpp"]
    BYTE = ("uint8_t *", "const uint8_t *", "char *", "const char *", "uint8_t *const", "const uint8_t *const", "unsigned char *", "const unsigned char *")
    nfun = 0
    ncmp = 0
    seen_fn = set()
    for u in UNITS:
        fu = chk.facts(u, funcs=r"asmjit::.*")
        for fo in fu["functions"]:
            fn = cfg.Fn(fo)
            keyf = (fn.name, fn.file, fn.line)
            if keyf in seen_fn or not fn.file.endswith(".cpp"):
                continue            # generic containers / sort helpers in headers compare element cursors of one array, which is address independent
            seen_fn.add(keyf)
            nfun += 1
            for i, x in fn.ex.items():
                if x["k"] != "binop" or x["op"] not in ("<", ">", "<=", ">="):
                    continue
                lt = (fn.e(x["lhs"]) or {}).get("ty", "")
                rt = (fn.e(x["rhs"]) or {}).get("ty", "")
                if "*" not in lt or "*" not in rt:
                    continue
                ncmp += 1
                byte = lt.replace("  ", " ").strip() in BYTE and rt.replace("  ", " ").strip() in BYTE
                chk.ob(R3, "%s|%s" % (fn.name.replace("asmjit::", ""), " ".join(fn.text(i).split())[:40]), byte, loc=fn.loc(i),
                       detail="`%s` orders two %s by address: the result depends on arena placement" % (" ".join(fn.text(i).split())[:60], lt),
                       key="ptrorder|%s" % fn.name.replace("asmjit::", ""))
    chk.floor(R3 + ":functions-scanned", nfun, 300)
    chk.extra["pointer_order"] = {"functions": nfun, "pointer_comparisons": ncmp}

    # ---------------------------------------------------------------- flag accessors (Section::clear_flags ...)
    from lib import flagacc
    flagacc.run(chk)
    flagacc.run_shared_flags(chk)
    from lib import tempsetting
    tempsetting.run(chk)

    from lib import danglink
    danglink.run(chk)
    return chk.finish(
        level="other",
        explanation=("Reset-closure coverage over /repo's current source: for each class that owns arena-backed containers or "
                     "pointers into arena memory, every such member is reset in the call closure of each reset entry point "
                     "(computed from class fields, resolved callees and field writes). Does not decide byte equality of recycled vs fresh generation."))
