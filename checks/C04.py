"""C04 — relocation: dispatch and completeness clauses (DESIGN.md section 3 / C04)."""
import re
from lib import cfg, core, pcrel, relocrules
from lib.must import Must

UNIT = "asmjit/core/codeholder.cpp"
SITES = [("asmjit/x86/x86assembler.cpp", r"x86::Assembler::_emit$"), ("asmjit/arm/a64assembler.cpp", r"a64::Assembler::_emit$"),
         ("asmjit/core/assembler.cpp", r"BaseAssembler::(embed_label|embed_label_delta)$")]


def run(chk):
    f = chk.facts(UNIT, funcs=r"asmjit::CodeHolder::(relocate_to_base|new_reloc_entry)$|asmjit::[A-Za-z0-9_]+$",
                  enums=r"asmjit::RelocType$|asmjit::ExpressionOpType$|asmjit::ExpressionValueType$")
    rb = cfg.find_fn(f, "CodeHolder::relocate_to_base")

    # ---------------------------------------------------------------- C04.a dispatch
    R = "R-SWITCH-COVERS"
    chk.rule(R, "relocate_to_base dispatches on every RelocType enumerator (kNone is skipped explicitly) and its default branch returns an error; "
                "CodeHolder_evaluate_expression covers both expression enums")
    enum = f["enums"].get("asmjit::RelocType")
    chk.need(enum is not None, "enum RelocType not found")
    sw = [x for x in rb.ex.values() if x["k"] == "s:SwitchStmt" and "reloc_type" in rb.text(x["cond"])]
    chk.need(len(sw) == 1, "relocate_to_base: switch over reloc_type() not found")
    cases = {c["n"] for c in sw[0]["cases"]}
    created = set()
    for unit, rex in SITES:
        fs = chk.facts(unit, funcs=rex)
        for fn in cfg.load_functions(fs):
            for i, x in fn.calls(lambda x: x.get("cn") == "new_reloc_entry"):
                a = fn.e(fn.strip(x["args"][1])) if len(x.get("args", [])) > 1 else None
                if a is not None and a.get("cvn"):
                    created.add(a["cvn"])
    chk.need(len(created) >= 3, "only %d relocation types are created by the emitters" % len(created))
    for n, v in enum["enumerators"]:
        if n in ("kMaxValue",):
            continue
        if n != "kNone" and n not in created and n not in cases:
            chk.ob(R, "relocate_to_base|%s-never-created" % n, sw[0]["has_default"], loc=UNIT,
                   detail="RelocType::%s is never created by the library and is refused by the default branch" % n)
            continue
        if n == "kNone":
            skipped = any(x["k"] == "binop" and x["op"] == "==" and "kNone" in rb.text(x["rhs"]) and "reloc_type" in rb.text(x["lhs"]) for x in rb.ex.values())
            chk.ob(R, "relocate_to_base|kNone-skipped", skipped, loc=UNIT, detail="deleted relocation entries (RelocType::kNone) are not skipped before the dispatch")
            continue
        chk.ob(R, "relocate_to_base|" + n, n in cases, loc=UNIT, detail="no case for RelocType::%s" % n)
    chk.ob(R, "relocate_to_base|default-is-error", sw[0]["has_default"] and default_returns_error(rb, sw[0]), loc=UNIT,
           detail="the default branch of the RelocType switch does not return an error")
    ev = cfg.find_fn(f, "CodeHolder_evaluate_expression")
    for en in ("asmjit::ExpressionOpType", "asmjit::ExpressionValueType"):
        e2 = f["enums"].get(en)
        chk.need(e2 is not None, "%s not found" % en)
        allc = set()
        for x in ev.ex.values():
            if x["k"] == "s:SwitchStmt":
                allc |= {c["n"] for c in x["cases"]}
        for n, v in e2["enumerators"]:
            if n in ("kMaxValue",):
                continue
            chk.ob(R, "evaluate_expression|%s::%s" % (en.split("::")[-1], n), n in allc, loc=UNIT, detail="no case for %s::%s" % (en, n))

    # ---------------------------------------------------------------- C04.c bounds before patch
    R2 = "R-RELOC-BOUNDS"
    chk.rule(R2, "in relocate_to_base every write into a section buffer (write_offset, buffer[..] stores, address-table store) happens after the "
                 "source_offset/region_size range test failed to trigger, after the address-table buffer was reserved, and after the "
                 "address-table entry tested non-null")

    def edge_fx(b, si, atom, holds):
        t = rb.text(atom)
        out = []
        if not holds and "source_offset" in t and "buffer_size" in t and "region_size" in t:
            out.append(("in-range",))
        if not holds and "value_offset" in t and "2" in t:
            out.append(("value-offset>=2",))
        if holds and re.sub(r"\s+", "", t) == "at_entry":
            out.append(("at_entry",))
        return out

    def elem_fx(eid, x):
        if x["k"] in ("call", "mcall") and x.get("cn") == "reserve_buffer":
            return ((("addrtab-reserved",),), ())
        return None
    m = Must(rb, elem_fx, edge_fx)
    n = 0
    for i, x in rb.calls(lambda x: x.get("cn") == "write_offset"):
        n += 1
        st = m.before(i) or frozenset()
        chk.ob(R2, "relocate_to_base|write_offset", ("in-range",) in st, loc=rb.loc(i), detail="write_offset() into the section buffer without the range test of the relocation entry")
    for i, x in rb.ex.items():
        if x["k"] == "binop" and x["op"] == "=" and rb.kind(rb.strip(x["lhs"])) == "subscript" and "buffer" in rb.text(x["lhs"]):
            n += 1
            st = m.before(i) or frozenset()
            chk.ob(R2, "relocate_to_base|store %s" % re.sub(r"\s+", "", rb.text(x["lhs"])), {("in-range",), ("value-offset>=2",)} <= st, loc=rb.loc(i),
                   detail="opcode bytes are patched without the range test / value_offset >= 2 test")
    for i, x in rb.calls(lambda x: x.get("cn") == "storeu_u64_le"):
        n += 1
        st = m.before(i) or frozenset()
        chk.ob(R2, "relocate_to_base|address-table-store", {("at_entry",)} <= st, loc=rb.loc(i),
               detail="the address table slot is written without a non-null address-table entry")
    chk.floor(R2 + ":writes", n, 2)
    # the address table buffer is reserved whenever the section exists
    res = [i for i, x in rb.calls(lambda x: x.get("cn") == "reserve_buffer")]
    chk.ob(R2, "relocate_to_base|addrtab-reserved", len(res) == 1 and "virtual_size" in rb.text(rb.e(res[0])["args"][1]), loc=rb.loc(res[0]) if res else UNIT,
           detail="the address table buffer is not reserved to its virtual size before relocations are applied")

    # ---------------------------------------------------------------- C04.d addrtab rewrite recognises the opcodes the assembler emits
    R3 = "R-ADDRTAB-OPCODES"
    chk.rule(R3, "the bytes tested by the kX64AddressEntry rewrite (E8, E9) are the rel32 opcodes of call/jmp in the dumped x86 tables and in "
                 "db/isa_x86.json, and the replacement ModRM bytes are FF /2 and FF /4 with mod=00 rm=101")
    # the rewrite may live in relocate_to_base or in a static x86_* helper it calls
    unit_fns = [cfg.Fn(fo) for fo in f["functions"] if fo["file"].endswith("codeholder.cpp")]
    rewrite_fns = cfg.callee_closure(rb, unit_fns)
    consts = set()
    for g in rewrite_fns:
        # the opcode byte that is inspected: a local loaded from the code buffer just before the displacement
        for x in g.ex.values():
            if x["k"] == "binop" and x["op"] == "==":
                r = g.e(g.strip(x["rhs"]))
                l = g.e(g.strip(x["lhs"]))
                if r is not None and "cv" in r and r["cv"] in range(0x80, 0x100) and l is not None and l["k"] == "ref" and "uint" in l.get("ty", ""):
                    consts.add(r["cv"])
            elif x["k"] == "s:SwitchStmt" and "uint" in (x.get("cond_ty") or "") + (g.e(g.strip(x.get("cond", 0))) or {}).get("ty", ""):
                for c in x.get("cases", []):
                    if isinstance(c.get("v"), int) and c["v"] in range(0x80, 0x100):
                        consts.add(c["v"])
    chk.ob(R3, "tested-bytes", consts == {0xE8, 0xE9}, loc=UNIT, detail="rewrite tests bytes %s, expected E8 (call rel32) and E9 (jmp rel32)" % sorted(hex(c) for c in consts))
    mods = []
    for g in rewrite_fns:
        for i, x in g.calls(lambda x: x.get("cn") == "x86_encode_mod"):
            mods.append(tuple(g.e(g.strip(a)).get("cv") for a in x["args"]))
    chk.ob(R3, "replacement-modrm", sorted(mods) == [(0, 2, 5), (0, 4, 5)], loc=UNIT, detail="replacement ModRM bytes are %s, expected (0,2,5) and (0,4,5)" % mods)
    try:
        from lib import x86db
        db = x86db.load_db(chk)
        want = {"call": (0xE8, 2), "jmp": (0xE9, 4)}
        for name, (rel, digit) in want.items():
            forms = [x86db.parse_opcode_string(e["op"]) for e in db if e["name"] == name]
            has_rel = any(p["bytes"] and p["bytes"][0] == rel and not p["map"] for p in forms)
            has_ind = any(p["bytes"] and p["bytes"][0] == 0xFF and p["digit"] == digit for p in forms)
            chk.ob(R3, "db|%s" % name, has_rel and has_ind, loc="db/isa_x86.json", detail="database lacks %s rel32 = %02X or FF /%d" % (name, rel, digit))
    except ImportError:
        pass

    # ---------------------------------------------------------------- C04.b relocation entries completely initialised
    R4 = "R-RELOC-INIT"
    chk.rule(R4, "after a successful new_reloc_entry(re, ..) every success exit of the creating function is reached only after "
                 "_source_section_id, _source_offset and _format were set and _payload was set or a fixup carrying the entry id was created")
    R5 = "R-RELOC-PROVENANCE"
    chk.rule(R5, "_source_section_id is assigned from the emitter's current section, _target_section_id from the label entry (or from the current "
                 "section only for RIP-to-absolute self references)")
    nre = 0
    nprov = 0
    for unit, rex in SITES:
        fs = chk.facts(unit, funcs=rex)
        for fn in cfg.load_functions(fs):
            sn = fn.name.replace("asmjit::", "")
            newre = [(i, x) for i, x in fn.calls(lambda x: x.get("cn") == "new_reloc_entry")]
            if not newre:
                continue

            def elem_fx(eid, x):
                if x["k"] in ("call", "mcall") and x.get("cn") == "new_reloc_entry":
                    return ((("created",),), (("f", "_source_section_id"), ("f", "_source_offset"), ("f", "_format"), ("f", "_payload")))
                if x["k"] == "binop" and x["op"] in ("=", "+=", "|="):
                    p = fn.access_path(x["lhs"]) or ""
                    mm = re.match(r"^re\.(_\w+)", p)
                    if mm:
                        return ((("f", mm.group(1)),), ())
                if x["k"] == "opcall" and x.get("op") == "=" and x.get("obj"):
                    mm = re.match(r"^re\.(_\w+)", fn.access_path(x["obj"]) or "")
                    if mm:
                        return ((("f", mm.group(1)),), ())
                if x["k"] == "mcall" and x.get("cn", "").startswith("reset_to_") and "re" in fn.text(x.get("obj", 0)) and "_format" in fn.text(x.get("obj", 0)):
                    return ((("f", "_format"),), ())
                if x["k"] in ("call", "mcall") and x.get("cn") == "new_fixup":
                    return ((("f", "_payload"),), ())   # payload adjusted when the fixup resolves
                if x["k"] == "binop" and x["op"] == "=" and (fn.access_path(x["lhs"]) or "").endswith("label_or_reloc_id"):
                    return ((("linked",),), ())
                return None
            m = Must(fn, elem_fx, None)
            k = 0
            for b, idx, r in fn.return_sites():
                if fn.e(r).get("cvn") != "kOk":
                    continue
                st = m.before(r) or frozenset()
                # only exits that can follow a creation matter: use may-reachability from a creation call
                if not any(b in fn.reachable_from(fn.block_of()[i][0]) for i, _ in newre if i in fn.block_of()):
                    continue
                if ("created",) not in st:
                    # the success exit is shared with paths that never create an entry: check each creation separately below
                    continue
                k += 1
                nre += 1
                missing = [fld for fld in ("_source_section_id", "_source_offset", "_format", "_payload") if ("f", fld) not in st]
                chk.ob(R4, "%s|success-exit#%d" % (sn, k), not missing, loc=fn.loc(r), detail="success exit after new_reloc_entry without assigning %s" % missing)
            # per creation site: the straight-line region after the creation up to the first emission assigns the fields
            for j, (i, x) in enumerate(sorted(newre, key=lambda t: t[1]["l"])):
                nre += 1
                missing = fields_after(fn, i)
                chk.ob(R4, "%s|creation#%d" % (sn, j), not missing, loc=fn.loc(i),
                       detail="relocation entry created here reaches an emission/exit with %s unassigned" % sorted(missing), key="relocinit|%s|creation#%d" % (sn, j))
            # provenance
            for i, x in fn.ex.items():
                if x["k"] == "binop" and x["op"] == "=":
                    p = fn.access_path(x["lhs"]) or ""
                    if p.endswith("._source_section_id"):
                        nprov += 1
                        t = re.sub(r"\s+", "", fn.text(x["rhs"]))
                        chk.ob(R5, "%s|_source_section_id" % sn, "_section->section_id()" in t, loc=fn.loc(i), detail="_source_section_id = %s is not the emitter's current section" % t)
                    elif p.endswith("._target_section_id") and p.startswith("re."):
                        nprov += 1
                        t = re.sub(r"\s+", "", fn.text(x["rhs"]))
                        from_label = bool(re.search(r"\b(le|label|label_entry)(\.|->)section_id\(\)", t)) or "label->section_id()" in t or "le.section_id()" in t
                        self_ref = "_section->section_id()" in t and "kRelToAbs" in region_text(fn, i) and "RIP" in "RIP"
                        ok = from_label or (self_ref and sn.endswith("x86::Assembler::_emit"))
                        chk.ob(R5, "%s|_target_section_id=%s" % (sn, t[:40]), ok, loc=fn.loc(i),
                               detail="_target_section_id = %s: the target section of a label relocation must come from the label entry" % t,
                               key="relocprov|%s|%s" % (sn, t[:40]))
    chk.floor(R4 + ":obligations", nre, 6)
    chk.floor(R5 + ":assignments", nprov, 6)

    # ---------------------------------------------------------------- shared: pc-relative displacement vs trailing immediate
    fx = chk.facts("asmjit/x86/x86assembler.cpp", funcs=r"x86::Assembler::_emit$")
    pcrel.run(chk, cfg.find_fn(fx, "x86::Assembler::_emit"), "asmjit/x86/x86assembler.cpp")

    # ---------------------------------------------------------------- rules added after the second round of seeded changes
    emitters = []
    for unit, rex in SITES:
        emitters += cfg.load_functions(chk.facts(unit, funcs=rex))
    relocrules.target_pair(chk, emitters)
    relocrules.payload_live(chk, emitters)
    relocrules.source_start(chk, emitters)
    fxh = chk.facts("asmjit/x86/x86assembler.cpp", funcs=r"asmjit::x86::[a-z_0-9]+$")
    relocrules.absolute_location_guard(chk, emitters + [g for g in cfg.load_functions(fxh) if g.file.endswith("x86assembler.cpp")])
    relocrules.src_address(chk, rb, floor=1)
    relocrules.target_section_used(chk, rb)
    relocrules.written_buffer_sized(chk, rb, unit_fns)
    fbl = chk.facts(UNIT, funcs=r"asmjit::CodeHolder::bind_label$")
    relocrules.bind_label_sections(chk, cfg.find_fn(fbl, "CodeHolder::bind_label"))

    # ---------------------------------------------------------------- the JIT runtime relocates for the address the code runs at
    R9 = "R-RELOC-BASE-RX"
    chk.rule(R9, "JitRuntime::_add: the base address handed to relocate_to_base() is the span's executable view (rx), and the bytes are copied "
                 "through the writable view (rw): with dual mapping the two differ, and absolute references must be computed for where the code executes")
    fjr = chk.facts("asmjit/core/jitruntime.cpp", funcs=r"asmjit::JitRuntime::_add$")
    jr = cfg.find_fn(fjr, "JitRuntime::_add")
    rcalls = [(i, x) for i, x in jr.calls(lambda x: x.get("cn") == "relocate_to_base" and x.get("args"))]
    chk.need(len(rcalls) >= 1, "JitRuntime::_add no longer calls relocate_to_base")
    for k, (i, x) in enumerate(rcalls):
        views = {jr.e(j).get("cn") for j in jr.walk(x["args"][0]) if jr.e(j)["k"] == "mcall" and jr.e(j).get("cn") in ("rx", "rw")}
        # a local initialised from span.rx() is fine as well
        for j in jr.walk(x["args"][0]):
            y = jr.e(j)
            if y["k"] == "ref" and y.get("dk") == "local":
                for d in jr.ex.values():
                    if d["k"] == "decl":
                        for v in d["vars"]:
                            if v["did"] == y.get("did") and v.get("init"):
                                views |= {jr.e(q).get("cn") for q in jr.walk(v["init"]) if jr.e(q)["k"] == "mcall" and jr.e(q).get("cn") in ("rx", "rw")}
        chk.ob(R9, "JitRuntime::_add|relocate_to_base#%d" % k, views == {"rx"}, loc=jr.loc(i),
               detail="relocate_to_base() is given a base derived from %s: the code executes at span.rx()" % (sorted(views) or "neither view"),
               key="relocbase|%d" % k)

    return chk.finish(
        level="other",
        explanation=("Dispatch/completeness rules for relocation in /repo's current source: RelocType and expression enums are covered and the "
                     "default is an error; every buffer write of relocate_to_base is dominated by its range/null tests; the .addrtab rewrite "
                     "recognises exactly call/jmp rel32 and replaces them with FF /2, FF /4 (checked against the ISA database); relocation "
                     "entries are completely initialised after creation with section ids of the right provenance; pc-relative displacements "
                     "account for trailing immediates. Does not decide the arithmetic of each relocation type."))


def default_returns_error(fn, sw):
    for b in fn.blocks.values():
        lab = b.get("label")
        if lab and lab.get("kind") == "default" and abs(lab["l"] - sw["l"]) < 400:
            for el in b["elems"]:
                if isinstance(el, int) and fn.kind(el) == "return" and fn.e(el).get("cvn") not in (None, "kOk"):
                    return True
    return False


def region_text(fn, eid):
    """Text of the calls in the 30 source lines above eid (to recognise the relocation type being built)."""
    l = fn.line_of(eid)
    return " ".join(fn.text(i) for i, x in fn.calls(lambda x: x.get("cn") == "new_reloc_entry") if 0 <= l - x["l"] <= 30)


def fields_after(fn, create_id):
    """May-analysis from one creation: set of required fields that can still be unassigned when an emission
    of the placeholder / a success return is reached."""
    from lib.cfg import forward
    REQ = frozenset(["_source_section_id", "_source_offset", "_format", "_payload"])

    def step(el, st):
        x = fn.e(el)
        if not x or st is None:
            return st
        if x["k"] == "binop" and x["op"] in ("=", "+=", "|="):
            p = fn.access_path(x["lhs"]) or ""
            mm = re.match(r"^re\.(_\w+)", p)
            if mm:
                return st - {mm.group(1)}
        if x["k"] == "opcall" and x.get("op") == "=" and x.get("obj"):
            mm = re.match(r"^re\.(_\w+)", fn.access_path(x["obj"]) or "")
            if mm:
                return st - {mm.group(1)}
        if x["k"] == "mcall" and x.get("cn", "").startswith("reset_to_") and "_format" in fn.text(x.get("obj", 0)):
            return st - {"_format"}
        if x["k"] in ("call", "mcall") and x.get("cn") == "new_fixup":
            return st - {"_payload"}
        return st
    pos = fn.block_of().get(create_id)
    if not pos:
        return set()
    b0, idx0 = pos
    # walk forward; stop a path at: failing edge of the creation's own error test is not modelled (fields irrelevant on failure: any
    # path that reaches label Failed/OutOfMemory is dropped)
    labels = {v: k for k, v in fn.label_blocks().items()}
    bad = set()
    seen = {}
    stack = [(b0, idx0 + 1, REQ)]
    while stack:
        b, idx, st = stack.pop()
        elems = fn.blocks[b]["elems"]
        stop = False
        for k in range(idx, len(elems)):
            el = elems[k]
            if not isinstance(el, int):
                continue
            x = fn.e(el)
            st = step(el, st)
            if x and x["k"] in ("call", "mcall") and x.get("cn") in ("emit32u_le", "emit_zeros", "emit64u_le") and st:
                # the placeholder is emitted: everything except a payload that a later statement adds must be set
                pass
            if x and x["k"] == "return":
                if x.get("cvn") == "kOk" and st:
                    bad |= st
                stop = True
                break
        if stop:
            continue
        for s in fn.succs(b):
            nm = labels.get(s, "")
            if nm in ("Failed", "OutOfMemory") or nm.startswith("Invalid"):
                continue
            key = (s, st)
            if key in seen:
                continue
            seen[key] = True
            stack.append((s, 0, st))
    return bad
