"""C06 — calling conventions: convention-table clause only (DESIGN.md section 3 / C06)."""
from lib import cfg, core, callconv


def norm_expected(e, gpid, flagbits):
    """Turn an oracle tuple into the comparable form produced by the extractor."""
    out = [e[0]]
    for a in e[1:]:
        if isinstance(a, dict):
            if "order" in a:
                ids = [gpid["kId" + r.capitalize()] if isinstance(r, str) else r for r in a["order"]]
                out += ids + [255] * (8 - len(ids))
            elif "regs" in a:
                m = 0
                for r in a["regs"]:
                    m |= 1 << (gpid["kId" + r.capitalize()] if isinstance(r, str) else r)
                out.append(m)
            elif "flags" in a:
                v = 0
                for fl in a["flags"]:
                    v |= flagbits[fl]
                out.append(v)
        else:
            out.append(a)
    return out


def comparable(got):
    return [("dynamic" if isinstance(a, str) and a.startswith("dynamic:") else a) for a in got]


def run(chk):
    oracle = core.load_json("oracles/abi.json")
    R = "R-TABLE-ORACLE"
    chk.rule(R, "for each (architecture branch, convention case) of init_call_conv the CallConv setter calls with their constant-evaluated "
                "arguments equal the oracle: 'abi' entries are platform-ABI contracts (argument register order, preserved sets, stack alignment, "
                "red/shadow zone, who pops), 'pinned' entries are AsmJit-specific values pinned at the reviewed commit")
    fx = chk.facts("asmjit/x86/x86func.cpp", funcs=r"x86::FuncInternal::init_call_conv$|x86::FuncInternal::should_treat_as_cdecl[A-Za-z0-9]*$|asmjit::x86::should_treat_as_cdecl[A-Za-z0-9]*$",
                   enums=r"asmjit::x86::Gp::Id$|asmjit::CallConvFlags$|asmjit::CallConvId$")
    gpid = {n: v for n, v in fx["enums"]["asmjit::x86::Gp::Id"]["enumerators"]}
    flagbits = {n: v for n, v in fx["enums"]["asmjit::CallConvFlags"]["enumerators"]}
    total = 0
    for arch, unit, fname, facts in (("x86", "asmjit/x86/x86func.cpp", "x86::FuncInternal::init_call_conv", fx),
                                     ("a64", "asmjit/arm/a64func.cpp", "a64::FuncInternal::init_call_conv", None)):
        if facts is None:
            facts = chk.facts(unit, funcs="asmjit::" + fname + "$")
        fn = cfg.find_fn(facts, fname)
        got = callconv.extract(fn)
        exp = oracle[arch]
        for region in sorted(set(got) | set(exp)):
            g = [comparable(c) for c in got.get(region, [])]
            e_abi = [norm_expected(e, gpid, flagbits) for e in exp.get(region, {}).get("abi", [])]
            e_pin = [norm_expected(e, gpid, flagbits) for e in exp.get(region, {}).get("pinned", [])]
            # flags given as a single enumerator name are compared by name; sets evaluated to ints by the compiler are compared as ints
            for kind, lst in (("abi", e_abi), ("pinned", e_pin)):
                for e in lst:
                    total += 1
                    e2 = [flagbits.get(a, a) if (e[0] in ("set_flags", "add_flags") and isinstance(a, str)) else a for a in e]
                    g2 = [[flagbits.get(a, a) if (c[0] in ("set_flags", "add_flags") and isinstance(a, str)) else a for a in c] for c in g]
                    ok = e2 in g2
                    chk.ob(R, "%s|%s|%s|%s" % (arch, region, kind, " ".join(str(a) for a in e[:2])), ok, loc="%s:%d" % (unit, fn.line),
                           detail="%s %s: expected %s(%s); the code has %s" % (arch, region, e[0], ", ".join(str(a) for a in e2[1:]),
                                                                               [c for c in g2 if c[0] == e[0]][:3]),
                           key="abi|%s|%s|%s" % (arch, region, " ".join(str(a) for a in e[:2])))
            # nothing extra: every setter found is expected
            for c in g:
                c2 = [flagbits.get(a, a) if (c[0] in ("set_flags", "add_flags") and isinstance(a, str)) else a for a in c]
                allexp = [[flagbits.get(a, a) if (e[0] in ("set_flags", "add_flags") and isinstance(a, str)) else a for a in e] for e in e_abi + e_pin]
                total += 1
                chk.ob(R, "%s|%s|unexpected|%s" % (arch, region, " ".join(str(a) for a in c[:2])), c2 in allexp, loc="%s:%d" % (unit, fn.line),
                       detail="%s %s: setter %s(%s) is not in the oracle" % (arch, region, c[0], ", ".join(str(a) for a in c2[1:])))
    chk.floor(R + ":entries", total, 120)

    # C06.b 64-bit aliasing of conventions
    R2 = "R-CDECL-FAMILY"
    chk.rule(R2, "in 64-bit mode exactly the conventions that compilers fold into the platform convention (cdecl, stdcall, thiscall, fastcall, "
                 "regparm1-3) are folded")
    fams = [cfg.Fn(fo) for fo in fx["functions"] if "should_treat_as_cdecl" in fo["name"]]
    chk.need(len(fams) >= 1, "should_treat_as_cdeclIn64BitMode not found")
    fam = fams[0]
    names = sorted({fam.e(fam.strip(x["rhs"])).get("cvn") for x in fam.ex.values() if x["k"] == "binop" and x["op"] == "==" and fam.e(fam.strip(x["rhs"])) is not None})
    chk.ob(R2, "x86|folded-set", names == sorted(oracle["x86_cdecl_family_64"]), loc="asmjit/x86/x86func.cpp:%d" % fam.line,
           detail="folded conventions %s, expected %s" % (names, sorted(oracle["x86_cdecl_family_64"])))

    # ---------------------------------------------------------------- C06.c stack arguments are naturally aligned (AArch64)
    R3 = "R-STACK-ARG-ALIGN"
    chk.rule(R3, "a64 init_func_detail: every `stack_offset = align_up(stack_offset, K)` of a stack-passed argument is executed exactly when the "
                 "argument's size is at least K (AAPCS64 / Apple arm64: an argument is aligned to its natural alignment): the guarding test "
                 "holds for size == K and fails for size == K - 1")
    from lib.must import branch_atoms
    fa64 = chk.facts("asmjit/arm/a64func.cpp", funcs=r"asmjit::a64::FuncInternal::init_func_detail$")
    ifd = cfg.find_fn(fa64, "init_func_detail")
    atoms = branch_atoms(ifd)
    nal = 0
    pos = ifd.block_of()
    for i, x in sorted(ifd.calls(lambda x: x.get("cn") == "align_up" and len(x.get("args", [])) == 2)):
        if "stack_offset" not in ifd.text(x["args"][0]):
            continue
        par = ifd.parent_map().get(i)
        px = ifd.e(par) if par is not None else None
        while px and px["k"] in ("cast", "paren"):
            par = ifd.parent_map().get(par)
            px = ifd.e(par) if par is not None else None
        if not (px and px["k"] == "binop" and px["op"] == "=" and "stack_offset" in ifd.text(px["lhs"]) and "." not in ifd.text(px["lhs"]) and "->" not in ifd.text(px["lhs"])):
            continue            # the total size of the argument area, not an argument's offset
        kx = ifd.e(ifd.strip(x["args"][1]))
        if kx is not None and not isinstance(kx.get("cv"), int):
            # a computed alignment: it has to be computed from the argument (its size / type), a per-convention constant such as the
            # minimum slot size says nothing about the argument's natural alignment
            derived = set()
            for _ in range(4):
                for di, dx in ifd.ex.items():
                    if dx["k"] == "decl":
                        for v in dx["vars"]:
                            if v.get("init") is not None and any(
                                    ((ifd.e(j) or {}).get("k") in ("call", "mcall") and (ifd.e(j) or {}).get("cn") in ("size_of", "alignment_of", "size")) or
                                    ((ifd.e(j) or {}).get("k") == "ref" and (ifd.e(j) or {}).get("did") in derived) for j in ifd.walk(v["init"])):
                                derived.add(v["did"])
            from_arg = any(((ifd.e(j) or {}).get("k") == "ref" and (ifd.e(j) or {}).get("did") in derived) or
                           ((ifd.e(j) or {}).get("k") in ("call", "mcall") and (ifd.e(j) or {}).get("cn") in ("size_of", "alignment_of")) for j in ifd.walk(x["args"][1]))
            nal += 1
            chk.ob(R3, "a64|align_up(stack_offset, %s)#%d" % (" ".join(ifd.text(x["args"][1]).split())[:24], nal), from_arg, loc=ifd.loc(i),
                   detail="the stack offset of an argument is aligned to `%s`, which is not computed from the argument's size: an 8- or 16-byte "
                          "argument is then placed at a 4-byte boundary where the convention's slot size is 4 (Apple arm64)" %
                          " ".join(ifd.text(x["args"][1]).split())[:40], key="stackalign|a64|computed#%d" % nal)
            continue
        if kx is None or not isinstance(kx.get("cv"), int) or i not in pos:
            continue
        K = kx["cv"]
        b = pos[i][0]
        preds = ifd.preds.get(b, [])
        ok, why = False, "the alignment is not guarded by a single size test"
        if len(preds) == 1 and preds[0] in atoms:
            atom, pol = atoms[preds[0]]
            ax = ifd.e(atom)
            taken_when = (ifd.blocks[preds[0]]["succs"].index(b) == 0) == pol     # value of the atom on the edge into b
            if ax and ax["k"] == "binop" and ax["op"] in (">=", ">", "<", "<="):
                rx = ifd.e(ifd.strip(ax["rhs"]))
                if rx is not None and isinstance(rx.get("cv"), int):
                    c = rx["cv"]

                    def holds(v, op=ax["op"], c=c):
                        return {">=": v >= c, ">": v > c, "<": v < c, "<=": v <= c}[op]
                    ok = (holds(K) == taken_when) and (holds(K - 1) != taken_when)
                    why = "`%s` aligns %s" % (" ".join(ifd.text(atom).split()), "sizes above %d only" % K if not ok else "")
        # a branch that also handles vector types (16 bytes, natural alignment 16) cannot align to a constant below 16
        if ok and K < 16:
            pm = ifd.parent_map()
            j = i
            while j in pm:
                up = pm[j]
                ux = ifd.e(up)
                if ux is not None and ux["k"] == "s:IfStmt" and ux.get("cond") is not None and j != ux["cond"]:
                    rest = [c for c in ux.get("ch", []) if c != ux["cond"]]
                    if rest and j == rest[0] and any((ifd.e(q) or {}).get("k") in ("call", "mcall") and (ifd.e(q) or {}).get("cn") == "is_vec" for q in ifd.walk(ux["cond"])):
                        ok = False
                        why = "the branch also handles vector types (`%s`): a 16-byte argument has to be aligned to 16 (AAPCS64 C.14: the larger of 8 and the natural alignment)" % " ".join(ifd.text(ux["cond"]).split())[:60]
                        break
                j = up
        nal += 1
        chk.ob(R3, "a64|align_up(stack_offset, %d)#%d" % (K, nal), ok, loc=ifd.loc(i),
               detail="stack arguments of exactly %d bytes must be aligned to %d: %s" % (K, K, why), key="stackalign|a64|%d#%d" % (K, nal))
    chk.floor(R3 + ":sites", nal, 1)

    # ---------------------------------------------------------------- C06.d argument moves: which conversions sign-extend
    R4 = "R-SIGN-EXTEND-PAIRS"
    chk.rule(R4, "x86 emit_arg_move: the (destination, source) type pairs that select movsx/movsxd are exactly the pairs of signed integer "
                 "types with a narrower source: (Int16,Int8) (Int32,Int8) (Int64,Int8) (Int32,Int16) (Int64,Int16) (Int64,Int32)")
    fx86 = chk.facts("asmjit/x86/x86emithelper.cpp", funcs=r"asmjit::x86::EmitHelper::emit_arg_move$")
    eam = cfg.find_fn(fx86, "emit_arg_move")
    order = ["kInt8", "kInt16", "kInt32", "kInt64"]
    want = {(order[d], order[s_]) for d in range(4) for s_ in range(d)}
    # pairs compared with `cast_op` in a condition that dominates the movsx assignment
    pairs = set()
    for i, x in eam.calls(lambda x: x.get("cn") == "make_cast_op" and len(x.get("args", [])) == 2):
        a0, a1 = eam.e(eam.strip(x["args"][0])), eam.e(eam.strip(x["args"][1]))
        if a0 is not None and a1 is not None and a0.get("cvn") and a1.get("cvn"):
            pairs.add((a0["cvn"], a1["cvn"]))
    chk.need(len(pairs) >= 4, "emit_arg_move: constant make_cast_op pairs not found")
    chk.ob(R4, "x86|movsx-pairs", pairs == want, loc="asmjit/x86/x86emithelper.cpp:%d" % eam.line,
           detail="pairs selecting sign extension: unexpected %s, missing %s" % (sorted(pairs - want), sorted(want - pairs)), key="signext|x86")

    from lib import vecbysize, subscript as _sub, cfg as _cfg
    vecbysize.run(chk)
    from lib import swapwidth
    swapwidth.run(chk)
    from lib import deadsetting
    deadsetting.run(chk)
    from lib import stackslot
    stackslot.run(chk)
    from lib import cvtdir
    cvtdir.run(chk)
    fns_o = []
    for unit_, pat_ in (("asmjit/x86/x86func.cpp", r"asmjit::x86::(FuncInternal::)?[a-z_0-9]+$"), ("asmjit/arm/a64func.cpp", r"asmjit::a64::(FuncInternal::)?[a-z_0-9]+$")):
        fns_o += [g for g in _cfg.load_functions(chk.facts(unit_, funcs=pat_)) if g.file.endswith(unit_.split("/")[-1])]
    _sub.run(chk, fns_o, {}, {}, {}, rule="R-ORDER-SUBSCRIPT-BOUND", floor=1, only_fields=("id",),
             text="every subscript of a calling convention's register order (`_passed_order[group].id[i]`, 16 entries) has an index that is "
                  "bounded below 16 on the path (`i < kMaxRegArgsPerGroup`, a position counter that is tested before it advances): arguments "
                  "beyond the register-passed ones never read a neighbouring group's order as register ids")
    from lib import floatret
    floatret.run(chk)
    from lib import usedregs
    usedregs.run(chk)
    return chk.finish(
        level="other",
        explanation=("Convention-table clause only: the records built by x86/a64 init_call_conv (extracted from the AST per architecture "
                     "branch and convention case, arguments constant-evaluated by clang) equal a hand-written ABI oracle for SysV x86-64, "
                     "Win64, vectorcall, cdecl/stdcall/fastcall/thiscall/regparm and AAPCS64, and pinned values elsewhere; the 64-bit folding "
                     "of conventions is the expected set. Does not decide argument classification, stack offsets or the parallel-move solver."))
