"""Claim table: what each property's check decides (copied into MANIFEST.json by
tools/mkmanifest.py).  A property listed in CLAIMS is claimed only when checks/<id>.py exists."""

_TB = ("Trusted base: clang 14 front end (AST, CFG, constant evaluator), the python rule drivers, the frozen idiom "
       "tables in /verif/rules and the hand-written architecture/ABI oracles in /verif/oracles. Rules are "
       "intra-procedural over the CFG with callee summaries from the same unit; ASMJIT_ASSERT is never credited as a check.")

CLAIMS = {
    "C01": {
        "text": "Decides the table/database/dispatch clauses only: every entry of the encoder's constant lookup tables equals an independent oracle (exhaustive, 1237 entries), every instruction row's main/alt opcode (prefix, map, byte, /digit) occurs in a db/isa_x86.json form of the mnemonic (1769 cells), every encoding class has a dispatch case, FIXUP_GPB constants, pc-relative displacements account for the trailing immediate and take the current position from the writer cursor, REX is the last prefix and FWAIT precedes the overrides on every path, register ids are not compared before FIXUP_GPB, packed ModRM fields are not tested after a merge, generated tables regenerate identically (thorough).; invalid-marker entries of the 16-bit addressing tables are tested before use; operands are reinterpreted only as the kind the dominating test established; the displacement-less ModRM form excludes BP/R13 (16-bit: the disp16 slot), a path that knows the operand has an index register reads its scale before the instruction is closed, 64-bit immediates are range-tested unsigned or on both sides, and the validator consults the EVEX-capability flags the register allocator uses before it can accept vector registers 16..31 Does not decide ModRM/immediate arithmetic over operand values. Also (round 8): no ModRM/SIB path of _emit ends without the kind of the base (label / register) having been tested (R-LABEL-BASE-LOOKED-AT). Round 9: the two opcode bytes composed for the x87 arithmetic register forms equal the database form of the same operand order (both branches of kEncodingFpuArith folded from the source, R-FPU-ARITH-BYTE-BY-ORDER); the segment prefix of an implicit memory operand is written only after its base id was compared with zdi, and the two-memory string case selects the overridable operand by base id (R-ES-OPERAND-NOT-OVERRIDABLE, positions from db/isa_x86.json). Every address-size prefix decision is dominated by a test of the 16-bit-addressing flag against the mode (R-ADDR16-ONLY-IN-32BIT).",
        "design_ref": "DESIGN.md section 3 / C01",
        "note": _TB,
        "technique": "constant-evaluated table dump (clang APValue) compared with independent oracle tables and the ISA database; switch-coverage lint",
    },
    "C02": {
        "text": "Decides: every register id packed into an AArch64 instruction word is range-validated on all CFG paths before the word is emitted (143 sites, validators derived from callee bodies); every encoding class is dispatched and every row indexes inside the data array its class reads; register field positions, stored opcode constants (806) and register-run checks agree with db/isa_aarch64.json; every 64-bit immediate is range-tested on all paths before it is narrowed to 32 bits (21 sites) and condition-code immediates are bounded by the CondCode enum; lossy operations on 64-bit immediates (masking, templated narrowing) need a dominating bound; the overloads of the register-id validators accept identical id sets (finite predicate folding); assembler lookup tables equal an architectural oracle; general-purpose register widths allowed per row equal the database notation (379 operand positions).; operands are reinterpreted only as the kind the dominating test established; invalid-marker table entries are tested before they are packed; a memory index id is packed only after its register type was tested; the bound of a shift type fits the architectural class of every row of the case; sibling branches range-test the same shape expression alike; the vector arrangements each row's kVO class accepts exist in the database; FP scalar/vector shapes accepted by pick_fp_opcode and the shapes stored in exact-signature rows exist in the database; an offset scaled by a data-dependent shift is packed only after a lossless test with the same shift; every packed operand's register type was looked at before the word is emitted; a memory operand's base id becomes a label id only under has_base_label(); register width and element size are related on every accepting path of the hand-written FP cases (no .1D); a register index is packed only after the operand's write-back mode was read; the three addressing-form templates of a load/store row agree in size / V / opc; within one SIMD case every SizeOp that can be scalar packs the scalar bit if a sibling does; the 32-bit move-wide sequence never gives MOVN the sf bit Does not decide immediate/offset field arithmetic.",
        "design_ref": "DESIGN.md section 3 / C02",
        "note": _TB,
        "technique": "must/may forward dataflow over clang CFG (validate-before-emit), switch coverage, table-vs-database agreement",
    },
    "C03": {
        "text": "Decides bookkeeping/ordering clauses: label ids validated on the taken edge before label entries are dereferenced; the unresolved counter is written only in its inverse-pair forms and subtracted on every exit that ran the fixup iterator; one iterator advance per iteration and release only after a successful patch; survivor splice; OffsetFormat literals satisfy the encoder's preconditions; pc-relative addends account for trailing immediates and use the writer cursor; a label relocation takes offset and section from the same label entry; the displacement codec never narrows a 64-bit displacement without a range or round-trip test.; a reference from another section takes its target section from the label; a fixup list is attached to a label entry only on the edge where it is not bound; bind_label resolves fix-ups against the bound section; a label distance reaches a narrower field only under a dominating range predicate; a64: a memory operand's base id becomes a label id only under has_base_label(); (in-place modulo-2^32 narrowing of label arithmetic is refused, is_32bit() counts as a range guard); a full-width mask of a signed 64-bit displacement is a narrowing; every caller of write_offset() reports a refused displacement Does not decide displacement values. Also (round 8): a displacement known at encoding time goes into a one-byte field only on the taken edge of is_int_n<8>() of the same value (R-DISP8-FITS); a label base is looked at on every ModRM/SIB path (R-LABEL-BASE-LOOKED-AT).",
        "design_ref": "DESIGN.md section 3 / C03",
        "note": _TB,
        "technique": "dominance / must-pass-through dataflow on CFG, inverse-pair structural rule, constant-argument checks",
    },
    "C04": {
        "text": "Decides: RelocType/expression dispatch is complete and defaults to an error; every buffer write of relocate_to_base is dominated by its range/null tests; the .addrtab rewrite recognises exactly call/jmp rel32 and replaces them with FF /2, FF /4 (also against the ISA database); relocation entries are completely initialised with section ids of the right provenance; pc-relative displacements account for trailing immediates; payload and target section come from one label entry, a stored payload is read before it is overwritten, every address-after-field sum in relocate_to_base contains section offset and source offset.; JitRuntime relocates to the executable address; bytes stored into reserved buffer capacity are covered by a `_size` assignment on every path to a successful return; a relocation's source offset is the emitter's offset() in every sibling, a pc-relative value is computed in place only under is_absolute_location() Does not decide relocation arithmetic.",
        "design_ref": "DESIGN.md section 3 / C04",
        "note": _TB,
        "technique": "switch coverage, must-assign dataflow after new_reloc_entry, dominance of bounds tests, constant agreement with tables",
    },
    "C06": {
        "text": "Decides: the per-convention records built by init_call_conv (argument register order, preserved masks, "
                "stack alignment, red/spill zones, flags) equal the platform ABI oracle, and the 64-bit aliasing of conventions; AArch64 stack "
                "arguments are aligned exactly when their size reaches the alignment; the x86 argument mover sign-extends exactly the signed "
                "narrower-source pairs.; a computed stack alignment is computed from the argument's size and a vector branch never aligns to a constant below 16; x86 stack slots are at least register sized, advance only for stack-passed arguments and are aligned for vectors; a convention's own register order is not replaced by a shared block; RegUtils::signature_of_vec_by_size folds to the vector type of the size; subscripts of the register orders are bounded; an exchange is as wide as the wider variable; float/double argument conversions have the direction the branch condition states Does not decide argument classification as a whole or the parallel-move solver. Round 9: the register class of a returned float is chosen by a condition that mentions the convention (R-FLOAT-RET-FOLLOWS-ARG-CLASS).",
        "design_ref": "DESIGN.md section 3 / C06",
        "note": _TB,
        "technique": "AST extraction of constant setter arguments per (arch branch, convention case) compared with an ABI oracle table",
    },
    "C08": {
        "text": "Decides capture/replay coverage: every node-creating Builder override is replayed by serialize_to and every node kind dispatched; options/extra register/comment are restored from the node before _emit, operands passed positionally and operands 3..5 refreshed per node; _emit stores everything in the node; the five list-editing functions agree on links, list ends, cursor and dirty flag. The arguments of embed_label / embed_label_delta round-trip positionally through node constructor, field and accessor; the cursor is tested once per removed node on every path; element sizes are computed from the de-abstracted type id in Builder and Assembler alike. The section chain is terminated after re-linking; x86/a64 Compiler/Builder finalize forward the same emitter configuration; a node taken from a label/section/const-pool registry is linked only when known inactive or one-shot. A function that binds its label does so before every successful return; the one-shot state is not read after _grab_state(); serialize_to masks op[0..2] by op_count and takes op_ext from a per-node scratch array; Builder interface functions fail with error codes the Assembler's versions also use.; a resolved abstract type id is the one stored in the node; a section entered for the first time is appended after last_node(); both emitters compare a Section argument with the holder's section of its id; a new label node is appended at the index equal to its label id (linear proof with a padding-loop summary) Does not decide byte identity.",
        "design_ref": "DESIGN.md section 3 / C08",
        "note": _TB,
        "technique": "call-graph coverage, argument provenance tracing, structural pairing of link assignments",
    },
    "C09": {
        "text": "Decides accounting/guard/flag clauses C09.a-e: statistics updates come in inverse pairs, release/shrink/query agree on the guards "
                "applied to a looked-up address, is_initialized distinguishes the null implementation, empty-block policy writes, roll-back in "
                "new_block, every site that sets the empty flag rebuilds the same free-space cache fields, area/byte conversions use the pool's granularity., a block that is re-inserted into the tree has its links cleared, the emptiness test follows every path that lowers the used area, the secure fill walks the used ranges, release/shrink accept only the start of a span, query included; bound tests do not add two caller-controlled sizes before bounding each; the block-size computation counts the initial padding on every path; an internal shrink is never asked for size 0; release/shrink widen both ends of the block's search window (sums of unbounded locals included) Does not decide disjointness/alignment over histories. Also (round 8): a block pointer taken from a caller's Span is dereferenced only where it compared equal to the result of impl->tree.get() (R-SPAN-BLOCK-LOOKED-UP).",
        "design_ref": "DESIGN.md section 3 / C09",
        "note": _TB,
        "technique": "inverse-pair and sibling-guard structural rules, constant evaluation, acquire/release pairing on CFG",
    },
    "C10": {
        "text": "Decides clauses C10.a-c: every write into the caller's buffer is bounded by dst_size, sections are inserted at a lower_bound over "
                "(order, id), flatten's overflow exits precede any offset assignment. Layout walks iterate the layout order; Section::real_size() folds to max(virtual, buffer) on a value grid. flatten advances by the real size; the address table's written slots are covered by its buffer size on every successful path of relocate_to_base. flatten() calls set_offset() on every path of an iteration and gives alignment padding only to non-empty sections; bound tests do not add two unbounded sizes Does not decide layout arithmetic. Round 9: every iteration of copy_flattened_data's loop passes the bounds test and the padding decision (R-COPY-VISITS-EVERY-SECTION).",
        "design_ref": "DESIGN.md section 3 / C10",
        "note": _TB,
        "technique": "dominance of bounds tests over memcpy/memset sinks, structural comparator match, CFG reachability",
    },
    "C11": {
        "text": "Decides C11.a-c: every access to shared-mutable allocator state happens under LockGuard(impl->lock) (lock-held dataflow with "
                "caller closure), the set of writable globals of the whole library equals the reviewed allow-list (LLVM IR audit), const tables are "
                "never written through const_cast. Every overload of a thread-safe entry point is analysed. Does not decide races inside one-shot initialisers.",
        "design_ref": "DESIGN.md section 3 / C11",
        "note": _TB + " Lock/LockGuard and OS primitives are trusted.",
        "technique": "lock-held must-analysis over CFG + call graph; LLVM IR writable-global audit; const_cast lint",
    },
    "C12": {
        "text": "Decides table/database agreement: RW/flag/feature/rm tables regenerate byte-identically from db/; AArch64 mnemonics with register-run forms carry the consecutive flag (known finding: tbl/tbx); x86 forms with relative register operands report the run's lead count and follower flags; every operand the x86 rm table flags as replaceable by memory has, for each all-register database form, a memory form of the prescribed size (1162 operand obligations; 31 known findings because the information is kept per instruction id); in x86 query_rw_info every success exit of an AVX-512 capable category goes through the {k}/merge-masking step; multi-argument bit masks are built from one enum type.; byte masks agree with the access kind and size of the operand they are set on; {sae} is treated like {er}; the PEXTRW exemption of the reg/mem agreement is derived from query_rw_info; the EVEX / AVX2 decisions of query_features, folded over every operand shape of the database's VEX and EVEX forms, equal what only the newer encoding can express Does not decide what the CPU reads, writes or requires. Also (round 8): nothing stores to the operand records after the AVX-512 step of x86 query_rw_info (R-AVX512-STEP-LAST); both sibling loops of a64 query_rw_info consult the element index (R-LANE-MASK-LOOKED-AT); every site of x86 query_features that drops AVX512_F is controlled by all EVEX-only indicators, and reg_analysis feeds broadcast and ids 16..31 into them (R-EVEX-INDICATORS-CONSULTED).",
        "design_ref": "DESIGN.md section 3 / C12",
        "note": _TB + " db/*.js readers and tools/tablegen*.js are run under node as the repository's own generator.",
        "technique": "generated-table regeneration diff; table-vs-database agreement",
    },
    "C13": {
        "text": "Decides clauses C13.a-c: signature/name tables regenerate identically, the packed name index satisfies the binary-search "
                "preconditions for every id (exhaustive), the validation hook precedes any buffer commit and its failure reaches the error exit; the a64 name scan decodes every id; the x86 validator "
                "adds the vm flags that match the index register type.; AArch64 vector arrangements accepted per row exist in the database and the database's arrangement lists agree with the Q bit of their opcode; the x86 validator rejects {z} with a memory destination; FP and exact-signature shapes as in C02; each x86 emitter selects the validator by mode inside on_attach; the validator gives a vector-index operand no plain memory flag, compares implicit registers for every operand class that has them, and its per-mode base/index register sets equal the architecture; the validator reads every EVEX-capability flag the register allocator branches on where kInvalidPhysId is still reachable; a decision made from {er} alone is dominated by one that looks at {sae} too; merged reg|mem operand signatures are excluded from the memory-base register comparison; the broadcast block of the validator, evaluated for kB16/32/64 and the specified sizes, refuses exactly the wrong sizes; the explicit-counter branch of jecxz/loop accepts the database's counter sizes with the right address-size override Does not decide per-form acceptance agreement. Also (round 8): every register id the x86 validator reads (operand, memory base, memory index, {k}) is tested against allowed_reg_mask of its own register type with a failing clear side (R-PHYS-ID-MASK-APPLIED).",
        "design_ref": "DESIGN.md section 3 / C13",
        "note": _TB,
        "technique": "regeneration diff, exhaustive decode of dumped name tables, CFG dominance",
    },
    "C14": {
        "text": "Decides guard/atomicity clauses: label ids validated before dereference; AArch64 register ids validated before packing; emit functions (x86, a64, Builder) reset one-shot state on every exit, commit bytes only on success, never reach an input-validation exit after a fixup/relocation/address-table commit; the shared failure exit resets state before the handler can throw; AArch64 64-bit immediates are range-tested before narrowing and condition codes are bounded by the enum; label-count comparisons are strict; every failing return of an emitter interface function passes through report_error() (flow-sensitive), one-shot state is reset before the handler runs, a label is validated before the first commit of a multi-step function; constant-table subscripts are bounded for arbitrary operands (38 subscripts, upper-bound evaluator) and the opcode MM field stays inside its table; the CodeHolder is used only after `_code` was tested.; Builder::bind and the other registry-node adders link a node only when it is known not to be part of the list; operand reinterpretation, invalid-marker tables, memory index type, shift-type class and sibling range tests as in C02; lossless-shift, register-type and FP-shape rules as in C02; every non-noexcept Builder/Compiler API function reports its errors; Compiler functions grab the one-shot state before every exit; the a64 id range / condition tests read the raw id; BaseEmitter dispatchers that forward to _emit() fail through reset_state() + report_error(); 64-bit immediates are range-tested unsigned or on both sides; no label is registered before the arguments were validated; index write-back mode as in C02; in the two _emit functions every reporting call is a callee that resets first or is reached after reset_state(); log lines are written only after the last refusing step; Section identity as in C08 Does not decide that every invalid operand kind is rejected, nor operand-indexed table subscripts. Also (round 8): R-PHYS-ID-MASK-APPLIED (see C13). R-ADDR16-ONLY-IN-32BIT (see C01): 16-bit addressing is refused in 64-bit mode without the validator.",
        "design_ref": "DESIGN.md section 3 / C14",
        "note": _TB,
        "technique": "must-set / reachability dataflow on clang CFG, sibling-guard comparison, index-range vs table-length check",
    },
    "C15": {
        "text": "Decides: no Error value is dropped outside a reviewed table (223 discards, type-resolved); allocation results are null-tested on the taken edge before use (67 sites); unchecked appends are dominated by a successful reserve on the same container; preconditions established by a helper are established on every path; acquire/release roll-back on every failing exit of six functions (path-sensitive); freed blocks are not left linked; relocation entries are neutralised on failing exits; arena containers are untouched on allocation-failure exits; a failed acquisition's output is never what gets released; a failed attach leaves the emitter detached.; creators never fail with their object stored in a caller's cache slot; ConstPool::add changes nothing before its failing allocation; the RA clean-up unlinks through the container the links were recorded in; the RA clean-up resets every node's pass data; allocation wrappers are followed and a discarded creator result is flagged; no failing exit after a label was bound; no container keeps arena storage across an arena reset Does not decide leak freedom as a whole or retry equivalence.",
        "design_ref": "DESIGN.md section 3 / C15",
        "note": _TB,
        "technique": "null-tested must-analysis, discarded-result lint with frozen exception table, dominance, free-escape typestate",
    },
    "C16": {
        "text": "Decides: every arena-backed container, pointer and field mutated after construction of CodeHolder, BaseEmitter, BaseAssembler, BaseBuilder, BaseCompiler, BaseRAPass and ConstPool is reset in the closure of each reset entry point, or exempt with a reason (126 obligations); array members are reset element-wise, ArenaHashBase::reset covers every field; every override of on_attach/on_detach/on_reinit calls the handler it overrides on every path; no function of the code-generation units orders object pointers by address.; flag accessors of Section/RelocEntry-like records fold to set/clear/test on a value grid; a new Section is completely initialised, including all bytes of its name; the embedded .text section is completely re-initialised by init()/reinit() and reinit() restores the initial base address; shared flag words are only changed bitwise; a temporarily replaced error handler / logger is put back with its ownership (own vs inherited) preserved Does not decide byte equality of recycled vs fresh generation nor address independence. Also (round 8): R-FREED-BLOCK-NOT-LINKED - no arena function returns with a freed block still linked (shape analysis).",
        "design_ref": "DESIGN.md section 3 / C16",
        "note": _TB,
        "technique": "reset-closure coverage over class fields (call graph + field writes), must-call rule, pointer-compare lint",
    },
    "C17": {
        "text": "Decides structural clauses C17.a-d: every success exit of the offset encoders is range-guarded, stores only OR in masked fields, "
                "OffsetType/value-size dispatch is complete, ADR/ADRP split positions equal the database fields, no 64-bit displacement is narrowed without a dominating range predicate or a round-trip comparison, discarded low bits are tested to be zero before every shift by imm_discard_lsb() (codec and AArch64 direct path).; every caller of write_offset() reports a refusal; the 32-bit move-wide sequence never uses MOVN with sf Does not decide exactness per value. Also (round 8): R-DISP8-FITS (see C03).",
        "design_ref": "DESIGN.md section 3 / C17",
        "note": _TB,
        "technique": "dominance on CFG, expression-shape rule, switch coverage, database field agreement",
    },
    "C18": {
        "text": "Decides five structural clauses. (a) \"reports failures instead of overrunning\", null termination, for the formatting entry points of "
                "the string class and the arena: the value returned by vsnprintf() is used as an index, a copy length or the new size only where it is "
                "shown (linear reasoning over dominating comparisons, min() bounds) to stay inside the size given to the call. (b) \"recycles only "
                "released ones\": no arena function returns with a block it passed to Arena_free() still the target of a member or of a link of a live "
                "block (shape analysis over symbolic blocks). (c) the zero fill of ArenaVector resize does not depend on a reallocation. (d) no String "
                "modify operation reports success for an assign without having replaced the content. (e) ArenaVector queries forward to the Span "
                "operation of their own name. Does not decide the abstract-data-type behaviour of vector / hash / tree / list / bit set / pool / string "
                "under operation histories as a whole (not visible in code shape).",
        "design_ref": "DESIGN.md section 3 / C18",
        "note": _TB,
        "technique": "linear-arithmetic bound proof at every use of a (v)snprintf result; shape analysis (powerset of canonically renamed points-to graphs) over the arena's block lists; must-pass-through dataflow on CFG; forwarder/namesake agreement over instantiated templates",
    },
    "C20": {
        "text": "Decides name-table clauses C20.a-c: enumerator-to-text maps equal the enumerator names, x86 register name tables equal the architectural "
                "names for every (type, id) (exhaustive), the machine-code column is fed from the writer's buffer range and its hex runs tile the instruction bytes (linear forms), a register is printed with its own type (base/index pairing).; (v)snprintf results are bounded before they index or size the buffer; no transcript line is logged before the last step that can refuse the call; a resolved abstract type id is the one that is formatted; x86 size keywords are returned for exactly their size; wzr/wsp/xzr/sp are appended only under the case label of their width Does not decide operand rendering per value. Round 9: the displacement printed by format_operand derives from the full-width Mem::offset() (R-FORMAT-FULL-OFFSET).",
        "design_ref": "DESIGN.md section 3 / C20",
        "note": _TB,
        "technique": "constant-evaluated table dump vs oracle; argument provenance",
    },
}

NOT_APPLICABLE = {
    "C05": "semantic preservation of register allocation quantifies over all programs and inputs; allocator decisions depend on runtime liveness data; "
           "no structural necessary condition is within sound static reach (error discipline of the allocator is covered under C15)",
    "C07": "frame layout is arithmetic over sizes/alignments/masks and the guarantee is about machine state after executing the prolog/epilog; a mirror "
           "lint (push has a pop) would accept wrong orders/offsets and fire on harmless restructurings - a brittle proxy",
    "C19": "constant-pool offsets, deduplication and gap reuse are history-dependent arithmetic; no structural clause is a genuine necessary condition",
}
