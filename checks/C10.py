"""C10 — section layout and flattened copy: bounded-write, ordered-insertion and overflow-exit clauses
(DESIGN.md section 3 / C10)."""
from lib import cfg, core, relocrules
from lib.linear import Sym, Lin
from lib.must import Must

UNIT = "asmjit/core/codeholder.cpp"


def run(chk):
    f = chk.facts(UNIT, funcs=r"asmjit::CodeHolder::(copy_section_data|copy_flattened_data|flatten|new_section|code_size|relocate_to_base)$|asmjit::[A-Za-z0-9_]+$")

    # ------------------------------------------------------------------ C10.a bounded writes
    R = "R-BOUNDED-WRITE"
    chk.rule(R, "every memcpy/memset whose destination derives from the caller's buffer `dst` writes [dst+A, dst+A+L) with A+L <= dst_size, "
                "proved from the expressions' reaching definitions, min() bounds and the comparisons that hold on every path to the call")
    nw = 0
    for name in ("CodeHolder::copy_section_data", "CodeHolder::copy_flattened_data"):
        fn = cfg.find_fn(f, name)
        sym = Sym(fn)
        pnames = {p["name"] for p in fn.params}
        chk.need("dst" in pnames and "dst_size" in pnames, "%s lost its dst/dst_size parameters" % name)
        ords = {}
        for i, x in sorted(fn.calls(lambda x: x.get("cn") in ("memcpy", "memset", "memmove")), key=lambda t: t[1]["l"]):
            dest = sym.lin(x["args"][0], i)
            if dest.t.get("dst", 0) != 1:
                continue
            nw += 1
            ln = sym.lin(x["args"][2], i)
            e = dest.add(Lin(0, {"dst": 1}), -1).add(ln).add(Lin(0, {"dst_size": 1}), -1)    # A + L - dst_size
            facts = sym.cmp_facts(i)
            ok = sym.prove_le0(e, facts)
            o = ords.get(x["cn"], 0)
            ords[x["cn"]] = o + 1
            chk.ob(R, "%s|%s#%d" % (name, x["cn"], o), ok, loc=fn.loc(i),
                   detail="cannot prove that %s(%s, .., %s) stays inside [dst, dst+dst_size): offset+length-dst_size = %s with path facts %s" % (
                       x["cn"], fn.text(x["args"][0])[:50], fn.text(x["args"][2])[:50], e, [str(q) for q in facts][:6]),
                   key="boundedwrite|%s|%s#%d" % (name, x["cn"], o))
    chk.floor(R + ":writes", nw, 5)

    # ------------------------------------------------------------------ C10.b ordered insertion
    R2 = "R-ORDERED-INSERT"
    chk.rule(R2, "new_section inserts into _sections_by_order at the position returned by lower_bound over the tuple (order, section_id), compared with <")
    ns = cfg.find_fn(f, "CodeHolder::new_section")
    lbs = [(i, x) for i, x in ns.calls(lambda x: x.get("cn") == "lower_bound")]
    chk.need(len(lbs) == 1, "new_section: expected one std::lower_bound call, found %d" % len(lbs))
    lb_id, lb = lbs[0]
    ok_range = "_sections_by_order" in ns.text(lb["args"][0]) and "_sections_by_order" in ns.text(lb["args"][1])
    chk.ob(R2, "new_section|range", ok_range, loc=ns.loc(lb_id), detail="lower_bound does not search _sections_by_order.begin()..end()")
    # insert position derives from the lower_bound result
    ins = [(i, x) for i, x in ns.calls(lambda x: x.get("cn") in ("insert_unchecked", "insert")) if "_sections_by_order" in ns.text(x.get("obj", 0))]
    chk.need(len(ins) == 1, "new_section: expected one insert into _sections_by_order")
    sym = Sym(ns)
    pos_txt = ns.text(ins[0][1]["args"][0])
    lbvar, _ = None, None
    from lib.c15rules import binding_of
    lbvar, _ = binding_of(ns, lb_id)
    chk.ob(R2, "new_section|position", lbvar is not None and lbvar in pos_txt, loc=ns.loc(ins[0][0]),
           detail="the insert position `%s` is not derived from the lower_bound result `%s`" % (pos_txt, lbvar))
    # comparator: lambda in the same unit; its facts are dumped as a separate function (operator())
    lam = [cfg.Fn(fo) for fo in f["functions"] if fo.get("lambda_of") == "asmjit::CodeHolder::new_section"]
    if not lam:
        # fall back: inspect the lambda body text through the call argument
        txt = ns.text(lb["args"][3]) if len(lb["args"]) > 3 else ""
        chk.ob(R2, "new_section|comparator", False, loc=ns.loc(lb_id), detail="comparator lambda not found in facts (%s)" % txt[:60])
    else:
        l0 = lam[0]
        rets = list(l0.return_sites())
        txt = l0.text(l0.e(rets[0][2])["val"]) if rets else ""
        rv = l0.e(l0.strip(l0.e(rets[0][2])["val"])) if rets else None
        shape = False
        if rv and rv["k"] in ("opcall", "binop") and rv.get("op") == "<":
            if rv["k"] == "binop":
                sides = [rv["lhs"], rv["rhs"]]
            elif rv.get("obj"):
                sides = [rv["obj"], rv["args"][0]]
            else:
                sides = rv["args"][:2]
            tt = [l0.text(s) for s in sides]
            shape = all("make_tuple" in t and t.index("order()") < t.index("section_id()") for t in tt if "order()" in t and "section_id()" in t) and \
                all("order()" in t and "section_id()" in t for t in tt) and "a->" in tt[0] and "b->" in tt[1]
        chk.ob(R2, "new_section|comparator", shape, loc=l0.loc(rets[0][2]) if rets else UNIT,
               detail="comparator is not `make_tuple(a->order(), a->section_id()) < make_tuple(b->order(), b->section_id())`: %s" % txt[:120])

    # ------------------------------------------------------------------ C10.c overflow exits before any offset assignment
    R3 = "R-OVERFLOW-BEFORE-ASSIGN"
    chk.rule(R3, "flatten() has overflow tests (align_up wrap, add_overflow flag) that return an error, and no set_offset() is reachable "
                 "before both tests have been passed for every section (the assigning loop starts only after the checking loop)")
    fl = cfg.find_fn(f, "CodeHolder::flatten")
    fails = [r for _, _, r in fl.return_sites() if fl.e(r).get("cvn") not in (None, "kOk")]
    chk.ob(R3, "flatten|overflow-exits", len(fails) >= 2, loc="%s:%d" % (UNIT, fl.line), detail="flatten has %d failing exits, expected the align_up and add_overflow tests" % len(fails))
    pos = fl.block_of()
    sets = [i for i, x in fl.calls(lambda x: x.get("cn") == "set_offset")]
    chk.need(len(sets) >= 1, "flatten no longer calls set_offset")
    bad = None
    for s in sets:
        sb = pos[s][0]
        for r in fails:
            rb = pos[r][0]
            if rb in fl.reachable_from(sb):
                bad = (s, r)
    chk.ob(R3, "flatten|no-failure-after-assignment", bad is None, loc=fl.loc(bad[0]) if bad else "%s:%d" % (UNIT, fl.line),
           detail="an overflow exit is reachable after set_offset() already changed a section")

    # ------------------------------------------------------------------ C10.d address-table shrink only when it is the last section
    R4 = "R-ADDRTAB-SHRINK-LAST"
    chk.rule(R4, "relocate_to_base() shrinks the address-table section's virtual size only on the edge where that section is the last in "
                 "_sections_by_order (otherwise following sections would overlap / code_size() would be wrong)")
    rb = cfg.find_fn(f, "CodeHolder::relocate_to_base")

    unit_fns = [cfg.Fn(fo) for fo in f["functions"] if fo["file"].endswith("codeholder.cpp")]
    nshrink = 0
    for g in cfg.callee_closure(rb, unit_fns):
        # in relocate_to_base itself the section is `address_table_section`; a helper receives it as a parameter
        passed = set()
        if g is not rb:
            for i, x in rb.calls(lambda x: x.get("callee") == g.name):
                for ai, a in enumerate(x.get("args", [])):
                    if "address_table" in rb.text(a) and ai < len(g.params):
                        passed.add(g.params[ai]["name"])

        def edge_fx(b, si, atom, holds, g=g):
            x = g.e(atom)
            t = g.text(atom)
            if x and x["k"] == "binop" and x["op"] in ("==", "!=") and "_sections_by_order" in t and "last()" in t and (x["op"] == "==") == holds:
                return [("addrtab-is-last",)]
            return ()
        m = Must(g, None, edge_fx)
        for i, x in sorted(g.ex.items()):
            if x["k"] == "binop" and x["op"] in ("=", "-=") and "_virtual_size" in g.text(x["lhs"]):
                obj = g.text(x["lhs"]).split("->")[0].strip()
                if not ("address_table" in obj or obj in passed):
                    continue
                st = m.before(i) or frozenset()
                chk.ob(R4, "relocate_to_base|shrink#%d" % nshrink, ("addrtab-is-last",) in st, loc=g.loc(i),
                       detail="the address table is shrunk without having tested that it is the last section in layout order")
                nshrink += 1
    chk.need(nshrink >= 1, "relocate_to_base (and the unit helpers it calls) no longer adjust the address table's _virtual_size")
    relocrules.written_buffer_sized(chk, rb, unit_fns)

    # ------------------------------------------------------------------ C10.e layout walks use the layout order
    R5 = "R-LAYOUT-ORDER"
    chk.rule(R5, "every CodeHolder function that accumulates section offsets (a loop whose body reads section->alignment() or "
                 "section->real_size()) iterates `_sections_by_order`, the order flatten() assigns offsets in - never the creation-order vector")
    fall = chk.facts(UNIT, funcs=r"asmjit::CodeHolder::[A-Za-z_0-9]+$")
    # unit-local helpers that align an offset parameter to a section's alignment: name -> index of the offset parameter
    fhelp = chk.facts(UNIT, funcs=r"asmjit::[A-Za-z_0-9]+$")
    align_helpers = {}
    for hg in cfg.load_functions(fhelp):
        for ci, cx in hg.calls(lambda x: x.get("cn") == "align_up" and len(x.get("args", [])) == 2):
            a0 = hg.e(hg.strip(cx["args"][0]))
            reads_al = any((hg.e(j) or {}).get("k") == "mcall" and (hg.e(j) or {}).get("cn") == "alignment" for j in hg.walk(cx["args"][1]))
            if a0 is not None and a0["k"] == "ref" and a0.get("dk") == "parm" and reads_al:
                for pi, pp in enumerate(hg.params):
                    if pp["did"] == a0["did"]:
                        align_helpers[hg.name] = pi

    def aligned_offsets(fn, body):
        """expressions that are aligned to the section's alignment inside the loop body (directly or through a helper)"""
        out = []
        for j in body:
            y = fn.e(j)
            if y["k"] in ("call", "mcall") and y.get("cn") == "align_up" and y.get("args"):
                out.append(y["args"][0])
            elif y["k"] == "call" and y.get("callee") in align_helpers and len(y.get("args", [])) > align_helpers[y["callee"]]:
                out.append(y["args"][align_helpers[y["callee"]]])
        return out
    nl = 0
    for fn in cfg.load_functions(fall):
        for i, x in fn.ex.items():
            if x["k"] != "s:CXXForRangeStmt":
                continue
            body_calls = {fn.e(j).get("cn") for j in fn.walk(i) if fn.e(j)["k"] == "mcall"}
            if any(fn.e(j)["k"] == "call" and fn.e(j).get("callee") in align_helpers for j in fn.walk(i)):
                body_calls.add("alignment")
            if not ({"real_size", "alignment"} <= body_calls):
                continue
            # the range expression: the member named in the statement's header line
            members = [fn.e(j).get("field") for j in fn.walk(i) if fn.e(j)["k"] == "member" and fn.e(j).get("l") == x["l"] and "section" in (fn.e(j).get("field") or "")]
            nl += 1
            chk.ob(R5, fn.name.replace("asmjit::", "") + "|range-for@" + (members[0] if members else "?"), members[:1] == ["_sections_by_order"], loc=fn.loc(i),
                   detail="%s accumulates section offsets while iterating %s: sizes and offsets disagree with flatten() whenever section order and "
                          "creation order differ" % (fn.name, members[:1] or "an unknown container"),
                   key="layoutorder|%s" % fn.name.replace("asmjit::", ""))
    chk.floor(R5 + ":loops", nl, 2)

    # ------------------------------------------------------------------ C10.e' the running offset advances by the section's real size
    R5b = "R-LAYOUT-ADVANCE"
    chk.rule(R5b, "in every such layout loop the running offset (the local that is aligned with align_up) is advanced by the section's "
                  "real_size() - directly or through a local initialised from it - and by nothing else: flatten() and code_size() reserve "
                  "max(virtual, buffer) bytes for every section")
    nadv = 0
    for fn in cfg.load_functions(fall):
        for i, x in fn.ex.items():
            if x["k"] != "s:CXXForRangeStmt":
                continue
            body = set(fn.walk(i))
            calls_in = {fn.e(j).get("cn") for j in body if fn.e(j)["k"] == "mcall"}
            if any(fn.e(j)["k"] == "call" and fn.e(j).get("callee") in align_helpers for j in body):
                calls_in.add("alignment")
            if not ({"real_size", "alignment"} <= calls_in):
                continue
            # the running offset: what is aligned to the section's alignment inside the loop
            off = set()
            for e_ in aligned_offsets(fn, body):
                r0 = fn.e(fn.strip(e_))
                if r0 and r0["k"] == "ref" and "did" in r0:
                    off.add(r0["did"])
            rs_locals = set()
            for j in body:
                y = fn.e(j)
                if y["k"] == "decl":
                    for v in y["vars"]:
                        if v.get("init") and fn.e(fn.strip(v["init"])) and fn.e(fn.strip(v["init"])).get("cn") == "real_size":
                            rs_locals.add(v["did"])

            def is_real_size(e):
                y = fn.e(fn.strip(e))
                return y is not None and ((y["k"] == "mcall" and y.get("cn") == "real_size") or (y["k"] == "ref" and y.get("did") in rs_locals))
            for j in sorted(body):
                y = fn.e(j)
                if y["k"] != "binop":
                    continue
                l = fn.e(fn.strip(y["lhs"]))
                if not (l and l["k"] == "ref" and l.get("did") in off):
                    continue
                adv = None
                if y["op"] == "+=":
                    adv = y["rhs"]
                elif y["op"] == "=":
                    r = fn.e(fn.strip(y["rhs"]))
                    if r and r["k"] in ("call", "mcall") and r.get("cn") == "add_overflow" and len(r.get("args", [])) >= 2:
                        adv = r["args"][1]
                    elif r and r["k"] == "binop" and r["op"] == "+":
                        adv = r["rhs"] if fn.e(fn.strip(r["lhs"])) and fn.e(fn.strip(r["lhs"])).get("did") in off else r["lhs"]
                if adv is None:
                    continue
                nadv += 1
                chk.ob(R5b, "%s|%s" % (fn.name.replace("asmjit::", ""), " ".join(fn.text(j).split())[:50]), is_real_size(adv), loc=fn.loc(j),
                       detail="`%s` advances the layout offset by `%s`, not by the section's real_size(): a section whose virtual size exceeds its "
                              "buffer is overlapped by the next one" % (" ".join(fn.text(j).split())[:70], " ".join(fn.text(adv).split())[:40]),
                       key="layoutadvance|%s" % fn.name.replace("asmjit::", ""))
    chk.floor(R5b + ":advances", nadv, 2)

    # ------------------------------------------------------------------ C10.f real_size() covers both sizes
    R6 = "R-REAL-SIZE-MAX"
    chk.rule(R6, "Section::real_size() equals max(virtual size, buffer size) for every combination of the two (accessor expression folded over "
                 "a grid of values, accessors inlined): a section is never laid out smaller than the bytes it holds")
    from lib import exprfold
    facc = chk.facts(UNIT, funcs=r"asmjit::Section::(real_size|virtual_size|buffer_size)$|asmjit::CodeBuffer::(size)$")
    by = {fn.name: fn for fn in cfg.load_functions(facc)}
    rs = by.get("asmjit::Section::real_size")
    chk.need(rs is not None, "Section::real_size not found")
    bad = None
    nev = 0
    try:
        for v in (0, 1, 7, 64, 4096):
            for b in (0, 1, 7, 64, 4096):
                def leaf(t, node, v=v, b=b):
                    if "virtual" in t:
                        return v
                    if "buffer" in t or t.endswith("_size") or "size()" in t:
                        return b
                    raise exprfold.Unknown()
                got = exprfold.Folder(by, leaf).fold(rs, exprfold.Folder(by, leaf).ret_of(rs))
                nev += 1
                if got != max(v, b) and bad is None:
                    bad = (v, b, got)
    except exprfold.Unknown:
        bad = ("?", "?", "not evaluable")
    chk.ob(R6, "Section::real_size", bad is None, loc="asmjit/core/codeholder.h:%d" % rs.line,
           detail="real_size() with virtual size %s and buffer size %s evaluates to %s, not to the larger of the two" % (bad or (0, 0, 0)),
           key="realsize|max")
    chk.floor(R6 + ":grid", nev, 25 if bad is None else 0)

    from lib import flattenrule
    flattenrule.run(chk)
    flattenrule.run_every_offset(chk)
    from lib import failpure
    failpure.run_wrapping_bounds(chk, [("asmjit/core/codeholder.cpp", r"asmjit::CodeHolder::(copy_section_data|copy_flattened_data|flatten|code_size|reserve_buffer|grow_buffer)$")],
                                 fixture="/verif/fixtures/asmjit/wrapping_bound.cpp", floor=2)
    from lib import copyevery
    copyevery.run(chk)
    return chk.finish(
        level="other",
        explanation=("Structural clauses over CodeHolder's layout/copy functions: every write into the caller's buffer is proved to stay in "
                     "[dst, dst+dst_size) from reaching definitions, min() bounds and dominating comparisons (5 writes); new_section inserts "
                     "at a lower_bound over (order, id); flatten's overflow exits precede any offset assignment; the address table is shrunk "
                     "only when it is last. Does not decide offsets/alignment arithmetic or no-overlap in general."))
