"""C15 — allocation failure yields an error: null-test, error-use, reserve-then-append, roll-back
and free-escape clauses (DESIGN.md section 3 / C15)."""
import re
from concurrent.futures import ThreadPoolExecutor
from lib import core, cfg
from lib import c15rules

LOG_CALLEE_RE = re.compile(r"^(asmjit::)?(String|StringLogger|FileLogger|Logger|Formatter|StringTmp<[^>]*>)::|::(format_[a-z_]+|finish_formatted_line|dump_[a-z_]+)$")
LOG_FUNC_RE = re.compile(r"(^|::)(log_[a-z_]+|_log_[a-z_]+|log|dump_[a-z_]+|annotate_code|RAPass_format[A-Za-z]+|RAPass_dump_[a-z_]+|format_[a-z_]+)$")


def short(n):
    return n.replace("asmjit::", "")


def run(chk):
    rules = core.load_json("rules/err_discard.json")
    accepted = rules["accepted"]
    units = [u for u in core.library_units() if "/ujit/" not in u]
    chk.need(len(units) >= 55, "only %d library units found" % len(units))

    # ---------------------------------------------------------------- C15.b R-ERR-USED
    R = "R-ERR-USED"
    chk.rule(R, "a call returning asmjit::Error whose value is discarded (expression statement, comma lhs or (void) cast) is a log sink "
                "by category or is listed with a reason in rules/err_discard.json")

    def one(u):
        return u, core.astfacts(u, discards=True)
    seen = {}
    with ThreadPoolExecutor(16) as ex:
        for u, f in ex.map(one, units):
            chk.units.add(u)
            for d in f["discards"]:
                if "/ujit/" in d["file"]:
                    continue
                seen[(d["file"], d["line"], d["callee"], d["in"])] = d
    ords = {}
    nlog = 0
    used_keys = set()
    _ret_memo = {}

    def returns_error(file, fn_name):
        k_ = (file, fn_name)
        if k_ not in _ret_memo:
            unit_ = file.replace("/repo/", "")
            ret = None
            if unit_.endswith(".cpp"):
                try:
                    ff = chk.facts(unit_, funcs=re.escape(fn_name.split("(")[0]) + "$")
                    for fo in ff["functions"]:
                        if fo.get("name") == fn_name.split("(")[0] or fo.get("name", "").endswith(fn_name.split("::")[-1].split("(")[0]):
                            ret = fo.get("ret")
                except Exception:
                    ret = None
            _ret_memo[k_] = (ret is None) or ("Error" in ret)
        return _ret_memo[k_]
    for (file, line, callee, fn), d in sorted(seen.items()):
        key = "%s -> %s" % (short(re.sub(r"<(asmjit::)?(a64|x86)::RACFGBuilder>", "", fn)), short(callee))
        o = ords.get(key, 0)
        ords[key] = o + 1
        loc = "%s:%d" % (file.replace("/repo/", ""), line)
        if LOG_CALLEE_RE.search(callee) or LOG_FUNC_RE.search(fn):
            nlog += 1
            chk.ob(R, "log-sink|%s#%d" % (key, o), True, loc=loc)
        elif key in accepted:
            used_keys.add(key)
            chk.ob(R, "listed|%s#%d" % (key, o), True, loc=loc, detail=accepted[key])
        elif callee.endswith("::report_error") and not returns_error(file, fn):
            # a function that cannot return an Error (Label / pointer / void API, or a helper of one): report_error() IS its error channel
            chk.ob(R, "report-channel|%s#%d" % (key, o), True, loc=loc, detail="the enclosing function does not return Error: the handler is the only channel")
        else:
            chk.ob(R, "discard|%s#%d" % (key, o), False, loc=loc,
                   detail="Error result of %s is discarded in %s (%s) and is neither a log sink nor listed in rules/err_discard.json" % (short(callee), short(fn), d["text"][:80]),
                   key="errused|%s" % key)
    chk.floor(R + ":discards", len(seen), 150)
    chk.floor(R + ":log-sinks", nlog, 100)
    chk.extra["err_discards"] = {"total": len(seen), "log_sinks": nlog, "listed_used": len(used_keys), "listed_unused": sorted(set(accepted) - used_keys)}

    # callees the table claims never fail
    R2 = "R-ALWAYS-OK"
    chk.rule(R2, "a callee whose discarded result is accepted because it 'never fails' returns Error::kOk on every return")
    for unit, name in rules["always_ok"]:
        f = chk.facts(unit, funcs="asmjit::" + re.escape(name) + "$")
        fn = cfg.find_fn(f, name.split("::")[-1])
        rets = list(fn.return_sites())
        ok = bool(rets) and all(fn.e(r).get("cvn") == "kOk" for _, _, r in rets)
        chk.ob(R2, name, ok, loc="%s:%d" % (unit, fn.line), detail="%s has a return that is not the constant Error::kOk" % name)

    # ---------------------------------------------------------------- C15.a / c / d / e / f
    c15rules.run(chk)

    # ---------------------------------------------------------------- C15.g failure atomicity of the arena containers, roll-back targets
    from lib import failpure
    units = [("asmjit/support/%s.cpp" % u, r"asmjit::[A-Za-z_0-9:]+$") for u in ("arenahash", "arenavector", "arenabitset", "arenalist", "arenatree", "arena")]
    units.append(("asmjit/core/string.cpp", r"asmjit::String::[A-Za-z_0-9]+$"))
    units.append(("asmjit/core/compiler.cpp", r"asmjit::ArenaStringBase::[A-Za-z_0-9]+$"))      # header-only container, instantiated here
    units.append(("asmjit/core/constpool.cpp", r"asmjit::ConstPool::[A-Za-z_0-9]+$"))
    failpure.run(chk, units)
    failpure.run_arena_reset(chk)
    failpure.run_commit_last(chk, "asmjit/core/codeholder.cpp", r"asmjit::CodeHolder::[a-z_0-9]+$")
    failpure.run_release_not_failed(chk, [("asmjit/core/virtmem.cpp", r"asmjit::VirtMem::[A-Za-z_0-9]+$"), ("asmjit/core/jitallocator.cpp", r"asmjit::JitAllocator")])
    from lib import outclean
    outclean.run(chk)
    from lib import unlink
    unlink.run(chk)
    unlink.run_pass_data(chk)
    from lib import emitsiblings
    emitsiblings.run_bind_last(chk)

    from lib import emitreport
    emitreport.run(chk)
    return chk.finish(
        level="other",
        explanation=("Error-discipline rules over every non-ujit library unit of /repo's current source: discarded Error results "
                     "(type-resolved, incl. (void) casts) against a reviewed table; allocation results null-tested on the taken edge "
                     "before use; unchecked appends dominated by a successful reserve on the same container; roll-back on partial "
                     "failure; freed blocks not left linked. Does not decide leak freedom as a whole or retry equivalence."))
