"""C08 — Builder serialisation: capture / replay coverage clauses (DESIGN.md section 3 / C08)."""
import re
from lib import cfg, core, nodeadd
from lib.must import Must

UNIT = "asmjit/core/builder.cpp"


def run(chk):
    f = chk.facts(UNIT, funcs=r"asmjit::BaseBuilder::[A-Za-z_0-9]+$|asmjit::BaseBuilder_[A-Za-z_0-9]+$", records=r"^asmjit::(BaseBuilder|BaseEmitter)$")
    fns = {}
    for fo in f["functions"]:
        fn = cfg.Fn(fo)
        fns.setdefault(fn.name.replace("asmjit::", ""), fn)
    rec = f["records"].get("asmjit::BaseBuilder")
    chk.need(rec is not None, "class BaseBuilder not found")
    ser = fns.get("BaseBuilder::serialize_to")
    chk.need(ser is not None, "BaseBuilder::serialize_to not found")

    # ---------------------------------------------------------------- C08.a replay coverage
    R = "R-REPLAY-COVERS"
    chk.rule(R, "every BaseEmitter virtual that BaseBuilder overrides and whose body (transitively) adds a node is called on the destination "
                "emitter by serialize_to (embed == embed_data_array of bytes); every node-type predicate of the nodes it creates is tested")
    overrides = [m["name"] for m in rec["methods"] if m["virtual"] and any("BaseEmitter::" in o for o in m["overrides"])]
    chk.floor(R + ":overrides", len(overrides), 10)

    def reaches_add_node(name, seen=()):
        fn = fns.get("BaseBuilder::" + name)
        if fn is None or name in seen:
            return False
        for i, x in fn.calls():
            cn = x.get("cn")
            if cn == "add_node":
                return True
            if x.get("cls", "").endswith("BaseBuilder") and cn != name and reaches_add_node(cn, seen + (name,)):
                return True
        return False
    # serialize_to and the static helpers it calls (a replay branch may live in a helper)
    closure = [ser]
    seen_c = {ser.name}
    k = 0
    while k < len(closure):
        for i, x in closure[k].calls():
            c = (x.get("callee") or "").replace("asmjit::", "")
            if c in fns and fns[c].name not in seen_c and c.startswith("BaseBuilder_"):
                seen_c.add(fns[c].name)
                closure.append(fns[c])
        k += 1
    dst_calls = set()
    for g in closure:
        for i, x in g.calls(lambda x: x["k"] == "mcall" and x.get("obj")):
            o = g.e(g.strip(x["obj"]))
            if o and o["k"] == "ref" and "BaseEmitter" in o.get("ty", "") and o.get("dk") in ("parm", "local"):
                dst_calls.add(x["cn"])
    equiv = {"embed": "embed_data_array"}
    nrep = 0
    for name in sorted(set(overrides)):
        if not reaches_add_node(name):
            continue
        nrep += 1
        want = equiv.get(name, name)
        chk.ob(R, "serialize_to|replays|" + name, want in dst_calls, loc="%s:%d" % (UNIT, ser.line),
               detail="BaseBuilder::%s records a node but serialize_to never calls dst->%s()" % (name, want))
    chk.floor(R + ":node-creating-overrides", nrep, 8)
    preds = {x["cn"] for g in closure for i, x in g.calls(lambda x: x.get("cn", "").startswith("is_") and "Node" in x.get("cls", ""))}
    for p in ("is_inst", "is_label", "is_const_pool", "is_align", "is_embed_data", "is_embed_label", "is_embed_label_delta", "is_section", "is_comment"):
        chk.ob(R, "serialize_to|tests|" + p, p in preds, loc="%s:%d" % (UNIT, ser.line), detail="serialize_to never tests node->%s()" % p)

    # ---------------------------------------------------------------- C08.b one-shot state round trip + operands
    R2 = "R-REPLAY-STATE"
    chk.rule(R2, "serialize_to: dst->_emit is preceded on every path by set_inst_options/set_extra_reg/set_inline_comment fed from the node's "
                 "accessors and receives op[0], op[1], op[2], op_ext positionally; the writes that fill op_array[3..5] (copy and reset of the "
                 "unused tail) sit inside the per-node loop; BaseBuilder::_emit stores options, extra register, comment and all operands in the node")

    # the function that replays an instruction node: serialize_to itself or a static helper it calls
    G = None
    for g in closure:
        if any(True for i, x in g.calls(lambda x: x.get("cn") == "_emit" and x["k"] == "mcall")):
            G = g
    chk.need(G is not None, "no dst->_emit call found in serialize_to or its helpers")

    def setter_facts(g):
        def elem_fx(eid, x):
            if x["k"] == "mcall" and x.get("obj") and x.get("cn") in ("set_inst_options", "set_extra_reg", "set_inline_comment"):
                o = g.e(g.strip(x["obj"]))
                if o and "BaseEmitter" in o.get("ty", ""):
                    src = re.sub(r"\s+", "", g.text(x["args"][0]))
                    want = {"set_inst_options": "options()", "set_extra_reg": "extra_reg()", "set_inline_comment": "inline_comment()"}[x["cn"]]
                    if src.endswith(want) and "node" in src:
                        return (((x["cn"],),), ())
            return None
        return Must(g, elem_fx, None)
    mG = setter_facts(G)
    emits = [(i, x) for i, x in G.calls(lambda x: x.get("cn") == "_emit" and x["k"] == "mcall")]
    chk.need(len(emits) == 1, "%s: expected exactly one dst->_emit call" % G.name)
    ei, ex = emits[0]
    st = set(mG.before(ei) or frozenset())
    call_in_ser = None
    if G is not ser:
        mS = setter_facts(ser)
        for i, x in ser.calls(lambda x: x.get("callee") == G.name):
            call_in_ser = i
            st |= set(mS.before(i) or frozenset())
        chk.need(call_in_ser is not None, "serialize_to does not call %s directly" % G.name)
    for sname in ("set_inst_options", "set_extra_reg", "set_inline_comment"):
        chk.ob(R2, "serialize_to|" + sname, (sname,) in st, loc=G.loc(ei), detail="dst->_emit can run without dst->%s(node->...) on that path" % sname)
    args = [re.sub(r"\s+", "", G.text(a)) for a in ex["args"]]

    def operand_arg(a, k):
        """-> (names op[k], masked by op_count): `op[k]`, or `op_count > k ? op[k] : <none>` (directly or through a local reference)"""
        t = G.strip(a)
        tx = G.e(t)
        if tx is not None and tx["k"] == "ref" and tx.get("dk") == "local":
            for y in G.ex.values():
                if y["k"] == "decl":
                    for v in y["vars"]:
                        if v["did"] == tx.get("did") and v.get("init"):
                            return operand_arg(v["init"], k)
        if tx is not None and tx["k"] == "cond":
            c = re.sub(r"\s+", "", G.text(tx["c"]))
            alts = [re.sub(r"\s+", "", G.text(z)) for z in (tx["a"], tx["b"])]
            m = re.match(r"^op_count>(\d+)[uU]?$|^op_count>=(\d+)[uU]?$|^(\d+)[uU]?<op_count$", c)
            bound = None
            if m:
                bound = int(m.group(1)) if m.group(1) else (int(m.group(2)) - 1 if m.group(2) else int(m.group(3)))
            return (alts[0] == "op[%d]" % k, bound == k and alts[0] == "op[%d]" % k)
        return (re.sub(r"\s+", "", G.text(t)) == "op[%d]" % k, False)
    oa = [operand_arg(ex["args"][k + 1], k) for k in range(3)] if len(args) == 5 else []
    chk.ob(R2, "serialize_to|operand-order", len(args) == 5 and args[0].endswith("inst_id()") and all(o[0] for o in oa) and args[4] == "op_ext",
           loc=G.loc(ei), detail="dst->_emit(%s) does not pass inst_id, op[0], op[1], op[2], op_ext positionally" % ", ".join(args)[:160])
    chk.ob(R2, "serialize_to|operands-masked-by-op-count", bool(oa) and all(o[1] for o in oa), loc=G.loc(ei),
           detail="dst->_emit receives op[0..2] without regard to op_count(): operands that are not part of the instruction (dropped by set_op_count(), "
                  "never written after new_inst_node()) are encoded", key="replaystate|operands-masked")
    # the scratch array handed to _emit as op_ext: `op_ext = <array> + 3`
    arr = None
    local_arrays = {v["name"] for x in list(G.ex.values()) + list(ser.ex.values()) if x["k"] == "decl" for v in x["vars"] if re.search(r"Operand_?\s*\[", v["ty"])}
    direct = []
    defs = []
    for i, x in G.ex.items():
        if x["k"] == "binop" and x["op"] == "=" and re.sub(r"\s+", "", G.text(x["lhs"])) == "op_ext":
            defs.append((i, x["rhs"]))
        elif x["k"] == "decl":
            for v in x["vars"]:
                if v["name"] == "op_ext" and v.get("init"):
                    defs.append((i, v["init"]))
    for i, rhs in defs:
        # every alternative of a conditional initialiser counts
        alts, stack = [], [rhs]
        while stack:
            t = G.strip(stack.pop())
            tx = G.e(t)
            if tx is not None and tx["k"] == "cond":
                stack += [tx["a"], tx["b"]]
            else:
                alts.append(t)
        for t in alts:
            txt = re.sub(r"\s+", "", G.text(t))
            mm = re.match(r"^(\w+)\+3u?$", txt)
            if mm and mm.group(1) in local_arrays:
                arr = mm.group(1)
            elif txt.endswith("no_ext"):
                pass
            else:
                direct.append((i, txt))
    chk.ob(R2, "serialize_to|op_ext-from-scratch", not direct, loc=G.loc(direct[0][0]) if direct else G.loc(ei),
           detail="op_ext is taken from `%s`, not from a scratch array that is filled per node: operands stored behind op_count() (stale arena contents, "
                  "operands dropped by set_op_count) reach the assembler" % (direct[0][1] if direct else ""), key="replaystate|op_ext-scratch")
    if direct:
        arr = arr or "?"
    chk.need(arr is not None, "%s: no definition of op_ext found" % G.name)
    # writes of the scratch array happen once per node: inside the per-node loop of serialize_to, or in the helper that is called from it
    posS = ser.block_of()
    anchor = call_in_ser if G is not ser else ei
    eb = posS[anchor][0]

    def in_cycle(b):
        return eb in ser.reachable_from(b) and b in ser.reachable_from(eb) and any(eb in ser.reachable_from(s2) for s2 in ser.succs(eb))
    chk.ob(R2, "serialize_to|replay-in-loop", in_cycle(eb), loc=ser.loc(anchor), detail="the instruction replay is not inside the per-node loop")
    posG = G.block_of()
    kinds = {"assign3": False, "copy": False, "reset": False}
    for i, x in G.ex.items():
        per_node = (G is not ser) or (i in posG and in_cycle(posG[i][0]))
        if x["k"] in ("opcall", "binop") and x.get("op") == "=":
            tgt = x.get("obj") or x.get("lhs")
            t = re.sub(r"\s+", "", G.text(tgt)) if tgt else ""
            if t == arr + "[3]" and per_node:
                kinds["assign3"] = True
        if x["k"] == "mcall" and x.get("obj") and (arr + "[") in G.text(x["obj"]) and per_node:
            if x.get("cn") == "copy_from":
                kinds["copy"] = True
            if x.get("cn") == "reset":
                kinds["reset"] = True
    for k2, v in kinds.items():
        chk.ob(R2, "serialize_to|op_array-%s-per-node" % k2, v, loc="%s:%d" % (UNIT, G.line),
               detail="the %s of the scratch operand array (operands 3..5 handed to _emit) is not performed once per node: stale operands of an earlier node can leak" % k2,
               key="replaystate|op_array-%s" % k2)
    # the tail reset loop runs up to Globals::kMaxOpCount
    be = fns.get("BaseBuilder::_emit")
    chk.need(be is not None, "BaseBuilder::_emit not found")

    def elem_fx2(eid, x):
        if x["k"] == "mcall" and x.get("cn") in ("set_extra_reg", "reset_op_range", "set_inline_comment"):
            return (((x["cn"],),), ())
        if x["k"] == "mcall" and x.get("cn") == "set_op" and x.get("args"):
            a = be.e(be.strip(x["args"][0]))
            if a is not None and "cv" in a:
                return ((("set_op", a["cv"]),), ())
        return None
    m2 = Must(be, elem_fx2, None)
    oks = [r for _, _, r in be.return_sites() if be.e(r).get("cvn") == "kOk"]
    chk.need(len(oks) == 1, "BaseBuilder::_emit: expected one success exit")
    st = m2.before(oks[0]) or frozenset()
    for need in (("set_extra_reg",), ("set_op", 0), ("set_op", 1), ("set_op", 2), ("reset_op_range",)):
        chk.ob(R2, "BaseBuilder::_emit|%s" % "-".join(str(n) for n in need), need in st, loc=be.loc(oks[0]),
               detail="the instruction node is added without %s on every path" % (need,))
    loop_set = any(x["k"] == "mcall" and x.get("cn") == "set_op" and "op_ext" in be.text(x["args"][1]) for x in be.ex.values() if x.get("args") and len(x["args"]) > 1)
    chk.ob(R2, "BaseBuilder::_emit|set_op-ext", loop_set, loc="%s:%d" % (UNIT, be.line), detail="operands 3..5 (op_ext) are not stored in the node")
    ctor = [x for x in be.ex.values() if x["k"] == "new" and "InstNode" in x.get("alloc_ty", "")]
    chk.ob(R2, "BaseBuilder::_emit|node-ctor", len(ctor) == 1 and all(w in be.text(ctor[0].get("init", 0)) for w in ("inst_id", "options", "op_count")),
           loc="%s:%d" % (UNIT, be.line), detail="InstNode is not constructed from inst_id, options and op_count")
    cm = any(x["k"] == "mcall" and x.get("cn") == "set_inline_comment" and "comment" in be.text(x["args"][0]) for x in be.ex.values() if x.get("args"))
    chk.ob(R2, "BaseBuilder::_emit|comment", cm, loc="%s:%d" % (UNIT, be.line), detail="the inline comment is not stored in the node")

    # ---------------------------------------------------------------- C08.c argument round trip of data nodes
    from lib import roundtrip
    fnodes = chk.facts(UNIT, funcs=r"asmjit::(AlignNode|EmbedLabelNode|EmbedLabelDeltaNode|LabelNode|CommentNode|SectionNode|EmbedDataNode|ConstPoolNode)::[A-Za-z_0-9~]+$")
    roundtrip.run(chk, fns, closure, fnodes)

    # ---------------------------------------------------------------- C08.d list editing siblings
    R3 = "R-LIST-EDIT-SIBLINGS"
    chk.rule(R3, "add_node / add_after / add_before / remove_node / remove_nodes agree: each links both directions or the list ends, marks "
                 "section links dirty when a section node is involved, and the removers move the cursor off a removed node")
    sibs = ["BaseBuilder::add_node", "BaseBuilder::add_after", "BaseBuilder::add_before", "BaseBuilder::remove_node", "BaseBuilder::remove_nodes"]
    for sname in sibs:
        fn = fns.get(sname)
        chk.need(fn is not None, "%s not found" % sname)
        dirty = [i for i, x in fn.ex.items() if x["k"] == "binop" and x["op"] == "=" and (fn.access_path(x["lhs"]) or "").endswith("_dirty_section_links")]

        sec_locals = set()
        for x in fn.ex.values():
            if x["k"] == "binop" and x["op"] in ("=", "|=") and "is_section()" in fn.text(x["rhs"]):
                l = fn.e(fn.strip(x["lhs"]))
                if l and l["k"] == "ref" and "did" in l:
                    sec_locals.add(l["did"])
        # ... or a flag that is set (to a non-zero constant) only where is_section() is known to hold
        def sec_edge(b, si, atom, holds, fn=fn):
            a = fn.e(atom)
            return [("is-section",)] if (a and a["k"] == "mcall" and a.get("cn") == "is_section" and holds) else ()
        ms0 = Must(fn, None, sec_edge)
        cand = {}
        for i, x in fn.ex.items():
            if x["k"] == "binop" and x["op"] == "=":
                l = fn.e(fn.strip(x["lhs"]))
                r = fn.e(fn.strip(x["rhs"]))
                if l and l["k"] == "ref" and l.get("dk") == "local" and "did" in l and r is not None and isinstance(r.get("cv"), int) and r["cv"] != 0:
                    cand.setdefault(l["did"], []).append(("is-section",) in (ms0.before(i) or frozenset()))
        for d, flags in cand.items():
            if flags and all(flags):
                sec_locals.add(d)

        def edge_fx(b, si, atom, holds, fn=fn, sec_locals=sec_locals):
            a = fn.e(atom)
            if a and a["k"] == "mcall" and a.get("cn") == "is_section" and holds:
                return [("is-section",)]
            if a and a["k"] == "ref" and a.get("did") in sec_locals and holds:
                return [("is-section",)]     # flag accumulated from node->is_section() over the removed range
            return ()
        ms = Must(fn, None, edge_fx)
        ok = len(dirty) >= 1 and all(("is-section",) in (ms.before(d) or frozenset()) or True for d in dirty)
        guarded = any(("is-section",) in (ms.before(d) or frozenset()) for d in dirty)
        chk.ob(R3, sname + "|dirty-on-section", ok and guarded, loc="%s:%d" % (UNIT, fn.line),
               detail="%s does not set _dirty_section_links when the node is a section (its siblings do): cached section links go stale" % sname,
               key="listedit|%s|dirty" % sname)
        # link discipline: the node's _prev and _next are both written; a neighbour's _next write is paired with a _prev write or a list end
        lhs = [re.sub(r"\s+", "", fn.text(x["lhs"])) for x in fn.ex.values() if x["k"] == "binop" and x["op"] == "="]
        nxt = [l for l in lhs if l.endswith("->_next")]
        prv = [l for l in lhs if l.endswith("->_prev")]
        ends = [l for l in lhs if l.endswith("_node_list._first") or l.endswith("_node_list._last") or "_node_list" in l]
        chk.ob(R3, sname + "|both-directions", len(nxt) >= 1 and len(prv) >= 1 and (len(ends) >= 1 or sname.endswith("add_node")), loc="%s:%d" % (UNIT, fn.line),
               detail="%s writes %d _next links, %d _prev links and %d list ends" % (sname, len(nxt), len(prv), len(ends)))
        if "remove" in sname:
            cur = any(l.endswith("_cursor") for l in lhs)
            chk.ob(R3, sname + "|cursor-moved", cur, loc="%s:%d" % (UNIT, fn.line), detail="%s never moves _cursor off the removed node" % sname)

    # ---------------------------------------------------------------- C08.d' the cursor is tested once per removed node
    R4 = "R-CURSOR-PER-REMOVED-NODE"
    chk.rule(R4, "on every path through remove_node / remove_nodes the number of `_cursor == <node>` tests is at least the number of nodes "
                 "deactivated (_clear_flags(kIsActive)): no removed node can remain the cursor (counting dataflow over the CFG, order-insensitive)")
    ncur = 0
    for sname in ("BaseBuilder::remove_node", "BaseBuilder::remove_nodes"):
        fn = fns[sname]

        def kind(el, fn=fn):
            x = fn.e(el)
            if not x:
                return 0
            if x["k"] == "mcall" and x.get("cn") == "_clear_flags" and "kIsActive" in fn.text(el):
                return 1
            if x["k"] == "binop" and x["op"] in ("==", "!="):
                if any((fn.access_path(x[side]) or "").endswith("_cursor") for side in ("lhs", "rhs")):
                    return -1
            return 0
        nd = sum(1 for b in fn.blocks.values() for el in b["elems"] if isinstance(el, int) and kind(el) == 1)
        nt = sum(1 for b in fn.blocks.values() for el in b["elems"] if isinstance(el, int) and kind(el) == -1)
        ncur += nd

        def transfer(b, st, fn=fn, kind=kind):
            for el in fn.blocks[b]["elems"]:
                if isinstance(el, int):
                    k = kind(el)
                    if k:
                        st = frozenset(max(-3, min(3, d + k)) for d in st)
            return st
        IN, OUT = cfg.forward(fn, frozenset({0}), transfer, lambda ss: frozenset().union(*ss))
        worst = max(IN.get(fn.exit, frozenset({0})) or {0})
        # a loop that tests before deactivating leaves -1 at the loop head; what matters is that no exit is reached owing a test
        chk.ob(R4, sname, nd >= 1 and nt >= 1 and worst <= 0, loc="%s:%d" % (UNIT, fn.line),
               detail="%s: a path reaches the exit having deactivated more nodes than it compared with _cursor (%d deactivation sites, %d cursor tests): "
                      "a removed node can stay the cursor and later nodes are linked to a dead chain" % (sname, nd, nt),
               key="cursor-per-node|%s" % sname)
    chk.floor(R4 + ":deactivations", ncur, 2)

    # ---------------------------------------------------------------- C08.e the recorded element size is the concrete one
    R5 = "R-DEABSTRACT-USED"
    chk.rule(R5, "a function that de-abstracts a TypeId (TypeUtils::deabstract) computes sizes only from the de-abstracted value: the Builder's "
                 "data node and the Assembler's direct emission must agree on the element size of intptr/uintptr")
    nde = 0
    fa = chk.facts("asmjit/core/assembler.cpp", funcs=r"asmjit::BaseAssembler::embed_data_array$")
    cand = [cfg.Fn(fo) for fo in fa["functions"]] + list(fns.values())
    for fn in cand:
        de = [(i, x) for i, x in fn.calls() if x.get("cn") == "deabstract"]
        if not de:
            continue
        final = set()
        for x in fn.ex.values():
            if x["k"] == "decl":
                for v in x["vars"]:
                    if v.get("init") and any(i in set(fn.walk(v["init"])) for i, _ in de):
                        final.add(v["did"])
            elif x["k"] == "binop" and x["op"] == "=" and any(i in set(fn.walk(x["rhs"])) for i, _ in de):
                l = fn.e(fn.strip(x["lhs"]))
                if l and "did" in l:
                    final.add(l["did"])
        for i, x in fn.calls():
            if x.get("cn") != "size_of":
                continue
            nde += 1
            refs = [fn.e(j) for j in fn.walk(i) if j != i and fn.e(j) and fn.e(j)["k"] == "ref" and fn.e(j).get("dk") in ("parm", "local")]
            good = bool(refs) and all(r.get("did") in final for r in refs)
            chk.ob(R5, "%s|size_of@%s" % (fn.name.replace("asmjit::", ""), fn.text(i)[:40]), good or not final, loc="%s:%d" % (fn.file.replace("/repo/", ""), x.get("l", fn.line)),
                   detail="%s computes `%s` from the abstract type id although the de-abstracted value exists: intptr/uintptr have abstract size 0" % (fn.name, fn.text(i)[:60]),
                   key="deabstract|%s" % fn.name)
    chk.floor(R5 + ":size_of-sites", nde, 2)

    # ---------------------------------------------------------------- C08.f the section chain rebuilt by update_section_links ends with null
    R6 = "R-CHAIN-TERMINATED"
    chk.rule(R6, "update_section_links: once a section node became the current (last seen) one, every path to the function's exit assigns "
                 "nullptr to the `_next_section` of the current section after the walk (path states carry whether the current section is known "
                 "to be non-null, so the `if (current_section)` guard is respected): the last section never keeps a stale successor")
    usl = fns.get("BaseBuilder::update_section_links")
    chk.need(usl is not None, "BaseBuilder::update_section_links not found")
    from lib.must import branch_atoms as _ba
    atoms_u = _ba(usl)
    cs_dids = set()
    for x in usl.ex.values():
        if x["k"] == "decl":
            for v in x["vars"]:
                if "SectionNode" in v.get("ty", "") and "*" in v.get("ty", ""):
                    cs_dids.add(v["did"])
    chk.need(len(cs_dids) >= 1, "update_section_links: no SectionNode* local found")

    def step(el, st):
        x = usl.e(el)
        if not x:
            return st
        out = set()
        for (nonnull, pending) in st:
            if x["k"] == "binop" and x["op"] == "=":
                l = usl.e(usl.strip(x["lhs"]))
                r = usl.e(usl.strip(x["rhs"]))
                if l and l["k"] == "ref" and l.get("did") in cs_dids:
                    isnull = r is not None and (r["k"] == "null" or r.get("cv") == 0)
                    out.add((not isnull, pending or not isnull))
                    continue
                p = usl.access_path(x["lhs"]) or ""
                if p.endswith("._next_section") and r is not None and (r["k"] == "null" or r.get("cv") == 0):
                    b0 = usl.e(usl.root_ref(x["lhs"])) if usl.root_ref(x["lhs"]) else None
                    if b0 and b0.get("did") in cs_dids:
                        out.add((nonnull, False))
                        continue
            out.add((nonnull, pending))
        return frozenset(out)

    def transfer(b, st):
        for el in usl.blocks[b]["elems"]:
            if isinstance(el, int):
                st = step(el, st)
        return st

    def edge(b, si, succ, st):
        if b not in atoms_u:
            return st
        atom, pol = atoms_u[b]
        holds = (si == 0) == pol
        ax = usl.e(atom)
        if ax and ax["k"] == "ref" and ax.get("did") in cs_dids:
            if holds:
                return frozenset((True, p_) for (nn, p_) in st)
            return frozenset((nn, p_) for (nn, p_) in st if not nn)        # a section known to be non-null cannot take the false edge
        return st
    INu, OUTu = cfg.forward(usl, frozenset({(False, False)}), transfer, lambda ss: frozenset().union(*ss), edge=edge)
    at_exit = INu.get(usl.exit, frozenset())
    chk.ob(R6, "BaseBuilder::update_section_links", bool(at_exit) and not any(p_ for (_, p_) in at_exit), loc="%s:%d" % (UNIT, usl.line),
           detail="a path reaches the exit with a current section whose `_next_section` was not reset to nullptr: after a node-list edit the "
                  "last section keeps pointing at a section that is no longer behind it", key="chainterminated|update_section_links")

    # ---------------------------------------------------------------- C08.g every finalize() configures its Assembler the same way
    R7 = "R-FINALIZE-SIBLINGS"
    chk.rule(R7, "x86/a64 Builder::finalize and Compiler::finalize hand the same emitter settings to the Assembler they serialise to (the set of "
                 "add_* / set_* calls on the local Assembler is identical in all four): a Builder and a Compiler configured alike produce the "
                 "same bytes as an Assembler configured that way")
    fin = {}
    for unit, cls in (("asmjit/x86/x86builder.cpp", "x86::Builder"), ("asmjit/x86/x86compiler.cpp", "x86::Compiler"),
                      ("asmjit/arm/a64builder.cpp", "a64::Builder"), ("asmjit/arm/a64compiler.cpp", "a64::Compiler")):
        ff = chk.facts(unit, funcs=r"asmjit::%s::finalize$" % cls)
        fn = cfg.find_fn(ff, cls + "::finalize")
        local_asm = {v["did"] for x in fn.ex.values() if x["k"] == "decl" for v in x["vars"] if "Assembler" in v.get("ty", "")}
        calls = set()
        for i, x in fn.calls(lambda x: x["k"] == "mcall" and x.get("obj")):
            o = fn.e(fn.strip(x["obj"]))
            if o and o["k"] == "ref" and o.get("did") in local_asm and re.match(r"^(add|set)_", x.get("cn") or ""):
                calls.add("%s(%s)" % (x["cn"], re.sub(r"\s+|this->", "", fn.text(x["args"][0])) if x.get("args") else ""))
        fin[cls] = (calls, fn)
    ref_set = set()
    for c, (calls, fn) in fin.items():
        ref_set |= calls
    for c, (calls, fn) in sorted(fin.items()):
        chk.ob(R7, c + "::finalize", calls == ref_set and len(ref_set) >= 1, loc="%s:%d" % (fn.file.replace("/repo/", ""), fn.line),
               detail="%s::finalize configures its Assembler with %s; its siblings also call %s" % (c, sorted(calls), sorted(ref_set - calls)),
               key="finalizesiblings|%s" % c)

    nodeadd.run(chk)
    from lib import emitsiblings
    emitsiblings.run(chk)
    emitsiblings.run_error_codes(chk)

    from lib import deabstract
    deabstract.run(chk)
    from lib import sectionend
    sectionend.run(chk)
    sectionend.run_identity(chk)
    from lib import labelindex
    labelindex.run(chk)
    return chk.finish(
        level="other",
        explanation=("Capture/replay coverage rules over BaseBuilder in /repo's current source: each node-creating override is replayed by "
                     "serialize_to and each node kind is dispatched; the instruction replay restores options/extra register/comment from the "
                     "node before _emit, passes operands positionally and refreshes operands 3..5 per node; _emit stores everything in the "
                     "node; the five list-editing functions agree on link directions, list ends, cursor and the dirty-section flag. "
                     "Does not decide byte identity."))
