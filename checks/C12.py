"""C12 — instruction read/write information: table / database agreement clauses (DESIGN.md section 3 / C12)."""
import re
from lib import regen, core, cfg, nametables
from lib import x86db, x86rm, rwexits
from checks.C17 import load_a64_db


def run(chk):
    # C12.a the RW / flag / feature / rm tables regenerate byte-identically from db/
    regen.run(chk)

    # ---------------------------------------------------------------- C12.b AArch64 register runs
    R = "R-CONSECUTIVE-FLAG"
    chk.rule(R, "an AArch64 instruction id whose database forms contain a register run `Nx{..}` (N >= 2) carries kInstFlagConsecutive so that "
                "query_rw_info reports the run, and every row carrying the flag has such a form")
    U = "asmjit/arm/a64instdb.cpp"
    f = chk.facts(U, tables=r"asmjit::a64::InstDB::(_inst_info_table|_inst_name_string_table|_inst_name_index_table)$", enums=r"asmjit::a64::InstDB::InstFlags$|asmjit::a64::Inst::Id$")
    T = f["tables"]
    rows = T["asmjit::a64::InstDB::_inst_info_table"]["value"]
    strtab = T["asmjit::a64::InstDB::_inst_name_string_table"]["value"]
    names = [nametables.decode(v, strtab) for v in T["asmjit::a64::InstDB::_inst_name_index_table"]["value"]]
    fl = {n: v for n, v in f["enums"]["asmjit::a64::InstDB::InstFlags"]["enumerators"]}
    chk.need("kInstFlagConsecutive" in fl, "kInstFlagConsecutive not found")
    cflag = fl["kInstFlagConsecutive"]
    ids = {v: n for n, v in reversed(f["enums"]["asmjit::a64::Inst::Id"]["enumerators"])}
    db = load_a64_db(chk)
    run_names = {}
    any_run = set()
    for e in db:
        for o in e["ops"]:
            m = re.match(r"^([1-9])x\{([A-Za-z])", o["s"])
            if m and m.group(2) in "VXWBHSDQ":          # AdvSIMD / general purpose runs (SVE/SME forms are not implemented by AsmJit)
                any_run.add(e["name"])
                if int(m.group(1)) >= 2:
                    run_names.setdefault(e["name"], set()).add(" ".join(x["s"] for x in e["ops"]))
    chk.floor(R + ":db-run-mnemonics", len(run_names), 20)
    nimpl = 0
    for rid in range(1, len(rows)):
        nm = names[rid]
        has = bool(rows[rid]["_flags"] & cflag)
        if nm in run_names:
            nimpl += 1
            chk.ob(R, "a64|%s" % ids.get(rid, rid), has, loc=U,
                   detail="`%s` has register-run forms in the database (%s) but its row lacks kInstFlagConsecutive: query_rw_info does not report the run" % (nm, sorted(run_names[nm])[0]),
                   key="consecutive|a64|%s" % ids.get(rid, rid))
        elif has:
            chk.ob(R, "a64|%s|flag-without-run" % ids.get(rid, rid), nm in any_run, loc=U, detail="row `%s` carries kInstFlagConsecutive but no database form has a register list" % nm)
    chk.floor(R + ":implemented-run-mnemonics", nimpl, 14)

    # ---------------------------------------------------------------- C12.b' x86 consecutive lead counts
    R2 = "R-CONSECUTIVE-LEAD"
    chk.rule(R2, "for every x86 database form with a relative register operand (`k+1`, `xmm+3`): in both RW records of the instruction the lead "
                 "operand's RWInfoOp.consecutive_lead_count equals the length of the run and each follower carries OpRWFlags::kConsecutive")
    UX = "asmjit/x86/x86instdb.cpp"
    fx = chk.facts(UX, tables=r"asmjit::x86::InstDB::(rw_info_index_a_table|rw_info_index_b_table|rw_info_a_table|rw_info_b_table|rw_info_op_table|rw_info_rm_table)$",
                   enums=r"asmjit::x86::Inst::Id$|asmjit::OpRWFlags$|asmjit::x86::InstDB::RWInfoRm::(Category|Flags)$|asmjit::x86::InstDB::RWInfo::Category$")
    TX = fx["tables"]
    for t in ("rw_info_index_a_table", "rw_info_index_b_table", "rw_info_a_table", "rw_info_b_table", "rw_info_op_table"):
        chk.need("asmjit::x86::InstDB::" + t in TX and "value" in TX["asmjit::x86::InstDB::" + t], "%s not dumped" % t)
    ia, ib = TX["asmjit::x86::InstDB::rw_info_index_a_table"]["value"], TX["asmjit::x86::InstDB::rw_info_index_b_table"]["value"]
    ra, rb = TX["asmjit::x86::InstDB::rw_info_a_table"]["value"], TX["asmjit::x86::InstDB::rw_info_b_table"]["value"]
    rop = TX["asmjit::x86::InstDB::rw_info_op_table"]["value"]
    opf = {n: v for n, v in fx["enums"]["asmjit::OpRWFlags"]["enumerators"]}
    xid = {n[3:].lower(): v for n, v in fx["enums"]["asmjit::x86::Inst::Id"]["enumerators"] if n.startswith("kId")}
    dbx = x86db.load_db(chk)
    nlead = 0
    seen = set()
    for e in dbx:
        rel = [(i, int(o["s"][-1])) for i, o in enumerate(e["ops"]) if re.search(r"\+[1-9]$", o["s"])]
        if not rel:
            continue
        name = e["name"]
        if name not in xid or (name, len(e["ops"])) in seen:
            continue
        seen.add((name, len(e["ops"])))
        lead = rel[0][0] - rel[0][1]
        count = max(r for _, r in rel) + 1
        rec = (ra[ia[xid[name]]] if len(e["ops"]) == 2 else rb[ib[xid[name]]])
        oi = rec["op_info_index"]
        nlead += 1
        got = rop[oi[lead]]["consecutive_lead_count"]
        chk.ob(R2, "x86|%s|lead" % name, got == count, loc=UX,
               detail="`%s %s`: operand %d leads a run of %d registers but its RWInfoOp reports consecutive_lead_count=%d" % (name, ", ".join(o["s"] for o in e["ops"]), lead, count, got),
               key="consecutivelead|x86|%s" % name)
        for i, r in rel:
            chk.ob(R2, "x86|%s|follower%d" % (name, i), bool(rop[oi[i]]["flags"] & opf["kConsecutive"]), loc=UX,
                   detail="`%s`: operand %d is a follower of the run but lacks OpRWFlags::kConsecutive" % (name, i))
    chk.floor(R2 + ":forms", nlead, 2)
    # and conversely: no RWInfoOp has a lead count without a database run
    with_lead = {i for i, o in enumerate(rop) if o["consecutive_lead_count"]}
    used_by = set()
    for name, idv in xid.items():
        if idv < len(ia):
            for rec in (ra[ia[idv]], rb[ib[idv]]):
                for k in rec["op_info_index"]:
                    if k in with_lead:
                        used_by.add(name)
    db_lead_names = {n for (n, _) in seen}
    chk.ob(R2, "x86|lead-only-for-runs", used_by <= db_lead_names, loc=UX, detail="instructions %s report a consecutive lead but have no run in the database" % sorted(used_by - db_lead_names)[:6])

    # ---------------------------------------------------------------- C12.c register-or-memory information
    x86rm.run(chk, fx)

    # ---------------------------------------------------------------- C12.d AVX-512 masking is applied on every exit of a category
    rwexits.run(chk)
    rwexits.run_bitmask(chk)
    rwexits.run_gather_mask(chk)

    from lib import bytemaskkind, ersae
    bytemaskkind.run(chk)
    ersae.run(chk)
    from lib import evexfeatures
    evexfeatures.run(chk)
    evexfeatures.run_avx2(chk)
    from lib import avx512last
    avx512last.run(chk)
    from lib import lanemask
    lanemask.run(chk)
    from lib import evexindicators
    evexindicators.run(chk)
    return chk.finish(
        level="other",
        explanation=("Table/database agreement clauses: the RW, flag, feature and rm tables regenerate byte-identically from db/ with the "
                     "repository's generator; every AArch64 mnemonic with a register-run form carries the consecutive flag (and vice versa); "
                     "x86 forms with relative register operands report the run's lead count and follower flags in both RW records; "
                     "every operand the rm table flags as replaceable by memory has a database form with a memory operand of the prescribed size "
                     "for each all-register form (31 known findings: the information is kept per instruction id, not per form). "
                     "Does not decide what the CPU reads/writes or which features it needs."))
