"""C14 — invalid input is rejected: guard / atomicity clauses (DESIGN.md section 3 / C14)."""
from lib import labelvalid, a64common, core


def run(chk):
    rules = core.load_json("rules/c14.json")
    # C14.a
    labelvalid.run(chk, rules["label_valid_exceptions"])
    # C14.b (shared with C02.a)
    A = a64common.load(chk)
    a64common.rule_vbe(chk, A, "C14.b")
    return chk.finish(
        level="other",
        explanation=("Guard and atomicity rules over the emit paths of /repo's current source: label ids are validated on the "
                     "taken branch edge before label entries are dereferenced; AArch64 register ids are validated before they are "
                     "packed. Does not decide that every invalid operand kind is rejected."))
