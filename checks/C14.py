"""C14 — invalid input is rejected: guard / atomicity clauses (DESIGN.md section 3 / C14)."""
from lib import labelvalid, a64common, core, precede, emitatomic, cfg, errreport, subscript, nodeadd


def run(chk):
    rules = core.load_json("rules/c14.json")
    # C14.a
    labelvalid.run(chk, rules["label_valid_exceptions"])
    labelvalid.run_bound_strict(chk)
    # C14.b (shared with C02.a)
    A = a64common.load(chk)
    a64common.rule_vbe(chk, A, "C14.b")
    a64common.rule_imm(chk, A)
    a64common.rule_validators(chk, A)
    a64common.rule_mem_index(chk, A)
    a64common.rule_mem_index_mode(chk, A)
    a64common.rule_shift_class(chk, A)
    a64common.rule_sibling_checks(chk, A)
    a64common.rule_shift_lossless(chk, A)
    a64common.rule_reg_type_seen(chk, A)
    a64common.rule_q_sz_related(chk, A)
    # C14.c R-EMIT-ATOMIC on the two assemblers
    RA = "R-EMIT-ATOMIC"
    chk.rule(RA, "emit functions: success exits reset state and commit bytes, failing exits clear state first, nothing fails after "
                 "writer.done(), and no input-validation exit is reachable after a fixup/relocation/address-table commit")
    st = emitatomic.analyse(chk, A["emit"], a64common.UNIT, RA, rules["emit_atomic_exceptions"])
    chk.floor(RA + ":a64-returns", st["returns"], 3)
    chk.floor(RA + ":a64-commits", st["commit_calls"], 2)
    fx = chk.facts("asmjit/x86/x86assembler.cpp", funcs=r"x86::Assembler::_emit$")
    xemit = cfg.find_fn(fx, "x86::Assembler::_emit")
    st = emitatomic.analyse(chk, xemit, "asmjit/x86/x86assembler.cpp", RA, rules["emit_atomic_exceptions"])
    chk.floor(RA + ":x86-returns", st["returns"], 3)
    chk.floor(RA + ":x86-commits", st["commit_calls"], 4)
    chk.floor(RA + ":x86-error-labels", st["error_labels"], 20)
    fb = chk.facts("asmjit/core/builder.cpp", funcs=r"asmjit::BaseBuilder::_emit$")
    bemit = cfg.find_fn(fb, "BaseBuilder::_emit")
    st = emitatomic.analyse(chk, bemit, "asmjit/core/builder.cpp", RA, rules["emit_atomic_exceptions"], require_done=False)
    chk.floor(RA + ":builder-returns", st["returns"], 4)
    # C14.c (part): the shared failure exit resets state before the handler can throw
    precede.run(chk, rules["must_precede"])
    # C14.f every rejected input reaches the error handler
    errreport.run(chk)
    errreport.run_code_guard(chk)
    errreport.run_dispatchers(chk)
    errreport.run_label_after_validation(chk)
    # C14.d constant tables are never read out of bounds
    subscript.run_units(chk)
    nodeadd.run(chk)
    from lib import emitsiblings
    emitsiblings.run(chk)
    from lib import opkind
    opkind.run(chk, A["emit"], floor=150)
    opkind.run(chk, xemit, floor=30)
    a64common.rule_id_range_raw(chk, A["emit"], "a64::Assembler::_emit")
    a64common.rule_id_range_raw(chk, xemit, "x86::Assembler::_emit")
    from lib import sentinel
    sentinel.run_units(chk)
    from lib import ubsigned
    fns_ub = []
    for unit, pat in (("asmjit/x86/x86assembler.cpp", r"x86::Assembler::_emit$"), ("asmjit/arm/a64assembler.cpp", r"a64::Assembler::_emit$|asmjit::a64::[a-z_0-9]+$")):
        fns_ub += [g for g in cfg.load_functions(chk.facts(unit, funcs=pat)) if g.file.endswith(unit.split("/")[-1])]
    ubsigned.run(chk, fns_ub)

    from lib import logorder
    logorder.run(chk)
    from lib import emitreport
    emitreport.run(chk)
    from lib import physidmask
    physidmask.run(chk)
    from lib import sectionend
    sectionend.run_identity(chk)
    from lib import addr16
    addr16.run(chk)
    return chk.finish(
        level="other",
        explanation=("Guard and atomicity rules over the emit paths of /repo's current source: label ids are validated on the "
                     "taken branch edge before label entries are dereferenced; AArch64 register ids are validated before they are "
                     "packed. Does not decide that every invalid operand kind is rejected."))
