"""C17 — displacement and immediate field codecs: structural clauses (DESIGN.md section 3 / C17)."""
import json
import os
import re
import subprocess
from lib import cfg, core, narrow
from lib.bits import MayBits
from lib.must import Must

UNIT = "asmjit/core/codewriter.cpp"


def load_a64_db(chk):
    out = os.path.join(core.CACHE, "dba64v2-%s.json" % core.tree_hash()[:16])
    if not os.path.exists(out):
        os.makedirs(core.CACHE, exist_ok=True)
        tmp = out + ".%d.tmp" % os.getpid()
        p = subprocess.run(["node", os.path.join(core.VERIF, "tools", "dbnorm", "a64.js"), core.REPO, tmp], stdout=subprocess.PIPE, stderr=subprocess.STDOUT, text=True, timeout=120)
        chk.need(p.returncode == 0 and os.path.exists(tmp), "a64 db normaliser failed: %s" % p.stdout[-800:])
        os.replace(tmp, out)
    with open(out) as fh:
        return json.load(fh)


def run(chk):
    f = chk.facts(UNIT, funcs=r"asmjit::CodeWriterUtils::(encode_offset32|encode_offset64|write_offset)$", enums=r"asmjit::OffsetType$")
    e32 = cfg.find_fn(f, "CodeWriterUtils::encode_offset32")
    e64 = cfg.find_fn(f, "CodeWriterUtils::encode_offset64")
    wo = cfg.find_fn(f, "CodeWriterUtils::write_offset")
    enum = f["enums"].get("asmjit::OffsetType")
    chk.need(enum is not None, "enum OffsetType not found")

    # ---------------------------------------------------------------- C17.a success exits are range guarded
    R = "R-ENCODE-RANGE-GUARD"
    chk.rule(R, "every `return true` of encode_offset32/64 is reached only after the bit-count sanity test and a range test of the value "
                "(`value != offset64` false, or is_encodable_offset_N true) - so a value that does not fit is never encoded")
    for fn in (e32, e64):
        def edge_fx(b, si, atom, holds, fn=fn):
            t = re.sub(r"\s+", "", fn.text(atom))
            out = []
            x = fn.e(atom)
            if x and x["k"] == "binop" and x["op"] == "!=" and "value" in t and "offset64" in t and not holds:
                out.append(("range",))
            if x and x["k"] in ("call", "mcall") and x.get("cn", "").startswith("is_encodable_offset_") and holds:
                out.append(("range",))
            if "bit_count" in t and "value_size" in t and not holds:
                out.append(("bits-sane",))
            if x and x["k"] == "unop":
                pass
            return out
        m = Must(fn, None, edge_fx)
        k = 0
        for b, idx, r in fn.return_sites():
            if fn.e(r).get("cv") != 1:
                continue
            k += 1
            st = m.before(r) or frozenset()
            chk.ob(R, "%s|return-true#%d" % (fn.name.split("::")[-1], k), {("range",), ("bits-sane",)} <= st, loc=fn.loc(r),
                   detail="success exit reachable without the range test / bit-count sanity test (%s)" % sorted(st))
        chk.floor(R + ":" + fn.name.split("::")[-1], k, 1 if fn is e64 else 8)

    # ---------------------------------------------------------------- C17.b mask discipline
    R2 = "R-ENCODE-FIELD-BITS"
    chk.rule(R2, "bit-level may-analysis of every `*dst = ...` in encode_offset32: where the case fixes bit_count/bit_shift by a sanity check, "
                 "the bits that depend on the value are exactly bit_count many (each value bit is placed once, nothing spills into other "
                 "bits of the instruction word); write_offset only ORs the returned mask into the loaded word")
    mb = MayBits(e32, 32, unknown_full=("value",), one_bit=("u", "n", "ja", "jb"))
    nst = 0
    for i, x in sorted(e32.ex.items()):
        if not (x["k"] == "binop" and x["op"] == "=" and e32.kind(e32.strip(x["lhs"])) == "ref" and e32.e(e32.strip(x["lhs"])).get("name") == "dst"
                and "*" in e32.text(x["lhs"])):
            continue
        nst += 1
        known = mb.known_equalities(i)
        case = case_of(e32, i)
        bits_all = mb.eval(x["rhs"], i, known=known)
        # value-dependent bits: evaluate with sign helpers forced to 0
        mb0 = MayBits(e32, 32, unknown_full=("value",))
        bits_val = mb0.eval(x["rhs"], i, known=dict(known, u=0, n=0, ja=0, jb=0))
        if "bit_count" in known and case not in ("kAArch32_ADR",):
            want = known["bit_count"]
            # Thumb32_BCond/B place two value bits through ja/jb: count them
            extra = 2 if case in ("kThumb32_BCond",) else 0
            got = bin(bits_val).count("1") + extra
            chk.ob(R2, "encode_offset32|%s|value-bits" % case, got == want, loc=e32.loc(i),
                   detail="case %s: the value can influence %d bits of the mask (%08X) but the field has %d bits" % (case, got, bits_val, want),
                   key="fieldbits|%s" % case)
        else:
            chk.ob(R2, "encode_offset32|%s|analysed" % case, True, loc=e32.loc(i), detail="no fixed bit count in this case; may-bits %08X" % bits_all)
    chk.floor(R2 + ":stores", nst, 8)
    # write_offset: store(dst, load(dst) | mask)
    nw = 0
    # the masks: locals whose address is handed to encode_offset32/64 (whatever they are called)
    mask_dids = set()
    for i, x in wo.calls(lambda x: x.get("cn", "").startswith("encode_offset")):
        for a in x.get("args", []):
            ax = wo.e(a)
            while ax and ax["k"] in ("cast", "paren"):
                ax = wo.e(ax["sub"])
            if ax and ax["k"] == "unop" and ax["op"] == "&":
                r0 = wo.e(wo.strip(ax["sub"]))
                if r0 and r0["k"] == "ref" and "did" in r0:
                    mask_dids.add(r0["did"])
    chk.need(len(mask_dids) >= 1, "write_offset: no local is passed to encode_offset32/64 by address")
    for i, x in wo.calls(lambda x: x.get("cn", "").startswith("store")):
        nw += 1
        a1 = wo.e(wo.strip(x["args"][1]))
        ok = False
        if a1 and a1["k"] == "binop" and a1["op"] == "|":
            l, r = wo.e(wo.strip(a1["lhs"])), wo.e(wo.strip(a1["rhs"]))
            ok = bool(l and l["k"] in ("call", "mcall") and l.get("cn", "").startswith("load") and wo.text(l["args"][0]) == wo.text(x["args"][0]) and
                      r and r["k"] == "ref" and r.get("did") in mask_dids)
        chk.ob(R2, "write_offset|%s" % x["cn"], ok, loc=wo.loc(i), detail="the patched word is not `load(dst) | mask` of the same location: %s" % wo.text(x["args"][1])[:80])
    chk.floor(R2 + ":write_offset-stores", nw, 4)

    # ---------------------------------------------------------------- C17.c dispatch
    R3 = "R-SWITCH-COVERS"
    chk.rule(R3, "encode_offset32 has a case for every OffsetType enumerator; write_offset handles value sizes 1, 2, 4, 8 and nothing else succeeds")
    sw = max((x for x in e32.ex.values() if x["k"] == "s:SwitchStmt"), key=lambda x: len(x["cases"]))
    cases = {c["n"] for c in sw["cases"]}
    for n, v in enum["enumerators"]:
        if n in ("kMaxValue",):
            continue
        chk.ob(R3, "encode_offset32|" + n, n in cases, loc=UNIT, detail="no case for OffsetType::%s" % n)
    # the value sizes write_offset distinguishes: switch cases over value_size() or equality tests against it (either shape)
    vs_locals = set()
    for x in wo.ex.values():
        if x["k"] == "decl":
            for v in x["vars"]:
                if v.get("init") and "value_size()" in wo.text(v["init"]):
                    vs_locals.add(v["did"])

    def is_vs(e):
        y = wo.e(wo.strip(e))
        return y is not None and (("value_size()" in wo.text(e)) or (y["k"] == "ref" and y.get("did") in vs_locals))
    sizes = set()
    for x in wo.ex.values():
        if x["k"] == "s:SwitchStmt" and is_vs(x["cond"]):
            sizes |= {c.get("v") for c in x["cases"] if c.get("v") is not None}
        elif x["k"] == "binop" and x["op"] in ("==", "!="):
            for a, b in ((x["lhs"], x["rhs"]), (x["rhs"], x["lhs"])):
                bx = wo.e(wo.strip(b))
                if is_vs(a) and bx is not None and isinstance(bx.get("cv"), int):
                    sizes.add(bx["cv"])
    chk.need(len(sizes) >= 1, "write_offset: no dispatch over value_size() found (neither switch nor comparisons)")
    chk.ob(R3, "write_offset|sizes", sorted(sizes) == [1, 2, 4, 8], loc=UNIT, detail="write_offset handles sizes %s" % sorted(sizes))

    # ---------------------------------------------------------------- C17.d ADR/ADRP positions vs database
    R4 = "R-DB-AGREE"
    chk.rule(R4, "the bits the ADR/ADRP case can set equal the relS field positions of the adr/adrp templates in db/isa_aarch64.json")
    db = load_a64_db(chk)
    for name in ("adr", "adrp"):
        forms = [e for e in db if e["name"] == name and any(k.startswith("rel") for k in e["fields"])]
        chk.need(forms, "no %s form with a rel field in the database" % name)
        want = 0
        for fld, parts in forms[0]["fields"].items():
            if fld.startswith("rel"):
                for p in parts:
                    want |= ((1 << p["size"]) - 1) << p["index"]
        got = None
        for i, x in e32.ex.items():
            if x["k"] == "binop" and x["op"] == "=" and "*" in e32.text(x["lhs"]) and case_of(e32, i) in ("kAArch64_ADR", "kAArch64_ADRP"):
                got = MayBits(e32, 32, unknown_full=("value",)).eval(x["rhs"], i, known=mb.known_equalities(i))
        chk.ob(R4, "encode_offset32|%s" % name, got == want, loc=UNIT,
               detail="ADR/ADRP case can set bits %s, database relS field occupies %08X" % ("%08X" % got if got is not None else None, want))

    # ---------------------------------------------------------------- C17.e no silent truncation of the 64-bit displacement
    narrow.run(chk, [e32, e64, wo], floor=2)
    # ---------------------------------------------------------------- C17.f discarded low bits are tested before they are shifted out
    fall = chk.facts(UNIT, funcs=r"asmjit::CodeWriterUtils[A-Za-z_0-9:]*$")
    helpers = {}
    for fo in fall["functions"]:
        g = cfg.Fn(fo)
        helpers["%s/%d" % (g.name, len(g.params))] = g
    fa64 = chk.facts("asmjit/arm/a64assembler.cpp", funcs=r"a64::Assembler::_emit$")
    narrow.run_discard(chk, [e32, e64, cfg.find_fn(fa64, "a64::Assembler::_emit")], helpers)

    from lib import writeoffset
    writeoffset.run(chk)
    from lib import movn32
    movn32.run(chk)
    from lib import disp8fits
    disp8fits.run(chk)
    return chk.finish(
        level="other",
        explanation=("Structural clauses over CodeWriterUtils in /repo's current source: every success exit of the offset encoders is "
                     "dominated by the bit-count sanity test and a range test; a bit-level may-analysis shows that each fixed-format case places "
                     "exactly bit_count value bits and write_offset only ORs the mask into the loaded word; OffsetType and value-size dispatch "
                     "are complete; the ADR/ADRP split equals the database's relS field. Does not decide exactness per value or the AArch64 "
                     "immediate encoders."))


def case_of(fn, eid):
    """Name of the nearest case label above the expression (by source line)."""
    l = fn.line_of(eid)
    best = None
    for x in fn.ex.values():
        if x["k"] == "s:SwitchStmt":
            for c in x["cases"]:
                if c["l"] <= l and (best is None or c["l"] > best[0]):
                    best = (c["l"], c["n"])
    return best[1] if best else "?"
