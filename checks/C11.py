"""C11 — thread safety of JIT memory management and independence of code generation
(DESIGN.md section 3 / C11): lock-held analysis, writable-global audit, const_cast lint."""
import os
import re
import subprocess
import tempfile
from concurrent.futures import ThreadPoolExecutor
from lib import core, cfg
from lib.must import Must
from lib.resetcovers import object_roots

UNITS_LOCK = ["asmjit/core/jitallocator.cpp", "asmjit/core/jitruntime.cpp"]
CLASSES = ["asmjit::JitAllocatorPrivateImpl", "asmjit::JitAllocator::Impl", "asmjit::JitAllocatorPool", "asmjit::JitAllocatorBlock"]


def short(n):
    return n.replace("asmjit::", "")


def run(chk):
    rules = core.load_json("rules/c11.json")
    lock_rule(chk, rules)
    globals_rule(chk, rules)
    constcast_rule(chk, rules)
    return chk.finish(
        level="other",
        explanation=("(a) lock-held must-analysis with caller closure over jitallocator.cpp / jitruntime.cpp: every access to a field of the "
                     "allocator state that is mutated after construction, every bit-vector access and every fill of allocator-owned memory "
                     "happens under LockGuard(impl->lock) in each thread-safe entry point; (b) the set of writable static-storage objects of "
                     "all library units equals the reviewed allow-list (AST audit; LLVM IR cross-check in the thorough tier); (c) const_cast of "
                     "namespace-scope constants is only used for sentinel comparison/storage. Trusted: Lock/LockGuard, OS primitives."))


# --------------------------------------------------------------------------------------------- (a)
def lock_rule(chk, rules):
    R = "R-LOCK-HELD"
    chk.rule(R, "in every thread-safe entry point, each access to shared-mutable allocator state (fields mutated after construction, "
                "used/stop bit vectors, fills of allocator-owned memory) - directly or through callees - happens while a LockGuard on "
                "impl->lock is alive")
    f = chk.facts(UNITS_LOCK[0], funcs=r"asmjit::JitAllocator|asmjit::BitVectorRangeIterator", records="^(" + "|".join(re.escape(c) for c in CLASSES) + ")$")
    f2 = chk.facts(UNITS_LOCK[1], funcs=r"asmjit::JitRuntime::")
    fns = {}
    for fo in f["functions"] + f2["functions"]:
        fn = cfg.Fn(fo)
        if fn.name in fns and (fns[fn.name].file, fns[fn.name].line) != (fn.file, fn.line):
            # an overload (JitAllocator::write has two): analysed under its own key, calls by name reach every overload
            k_ = 2
            while "%s#%d" % (fn.name, k_) in fns:
                k_ += 1
            fns["%s#%d" % (fn.name, k_)] = fn
        else:
            fns.setdefault(fn.name, fn)

    def overloads(q):
        return [k for k in fns if k == q or k.startswith(q + "#")]
    for c in CLASSES:
        chk.need(c in f["records"], "class %s not found" % c)

    # shared-mutable fields: assigned / updated / non-const method called, outside constructors and the creation helper
    creators = set(rules["creation_functions"])
    mutated = {}
    for name, fn in fns.items():
        sn = short(name)
        if sn in creators:
            continue
        if fn.raw.get("cls") and sn.split("::")[-1] == fn.raw["cls"].split("::")[-1]:
            continue   # constructor
        for i, x in fn.ex.items():
            tgt = None
            if x["k"] == "binop" and x["op"].endswith("=") and x["op"] not in ("==", "!=", "<=", ">="):
                tgt = x["lhs"]
            elif x["k"] == "unop" and x["op"] in ("++", "--"):
                tgt = x["sub"]
            elif x["k"] in ("mcall", "opcall") and x.get("obj") and not x.get("mconst") and not x.get("mstatic"):
                tgt = x["obj"]
            if tgt is None:
                continue
            for j in fn.walk(tgt):
                y = fn.e(j)
                if y["k"] == "member" and not y.get("method") and any(y.get("fq", "").startswith(c + "::") for c in CLASSES):
                    mutated.setdefault(y["fq"], sn)
                    break
    for fq in rules["pointee_mutable_fields"]:
        mutated.setdefault("asmjit::" + fq, "pointee")
    for fq in rules["not_shared"]:
        mutated.pop("asmjit::" + fq, None)
    chk.floor(R + ":shared-fields", len(mutated), 12)
    chk.extra["shared_mutable_fields"] = {short(k): v for k, v in sorted(mutated.items())}

    fill_callee = "asmjit::JitAllocator_fill_pattern"

    # per function: unlocked direct accesses + unlocked calls
    direct = {}
    calls = {}
    for name, fn in fns.items():
        def elem_fx(eid, x):
            if eid is None:
                if "dtor_of" in x and "LockGuard" in x.get("ty", ""):
                    return ((), (("locked",),))
                return None
            if x["k"] == "decl":
                for v in x["vars"]:
                    if "LockGuard" in v["ty"]:
                        return ((("locked",),), ())
            return None
        m = Must(fn, elem_fx, None, pseudo=True)
        d, c = [], []
        for i, x in fn.ex.items():
            what = None
            if x["k"] == "member" and not x.get("method") and x.get("fq") in mutated:
                what = "field " + short(x["fq"])
            elif x["k"] in ("call", "mcall") and x.get("callee") == fill_callee:
                what = "fill of allocator-owned memory"
            callee = x.get("callee") if x["k"] in ("call", "mcall", "opcall") else None
            if what is None and not (callee and callee in fns and callee != name.split("#")[0]):
                continue
            st = m.before(i)
            if st is None:
                # not a CFG element (e.g. inside an unevaluated context): find the nearest enclosing element
                par = fn.parent_map().get(i)
                hops = 0
                while st is None and par and hops < 8:
                    st = m.before(par)
                    par = fn.parent_map().get(par)
                    hops += 1
            locked = st is not None and ("locked",) in st
            if locked:
                continue
            if what:
                d.append((i, what))
            elif callee:
                c.append((i, callee))
        direct[name] = d
        calls[name] = c

    # closure: unlocked accesses reachable from a function without passing a lock
    memo = {}

    def unlocked(name, stack=()):
        if name in memo:
            return memo[name]
        if name in stack:
            return []
        out = [(name, i, what) for (i, what) in direct[name]]
        for (i, callee) in calls[name]:
            for ck in overloads(callee):
                sub = unlocked(ck, stack + (name,))
                if sub:
                    out.append((name, i, "call of %s which reaches %s" % (short(callee), sub[0][2])))
                    break
        memo[name] = out
        return out

    nentries = 0
    for ent in rules["entry_points"]:
        q = "asmjit::" + ent
        chk.need(q in fns, "thread-safe entry point %s not found" % ent)
        nentries += 1
        bad = []
        for ck in overloads(q):
            bad += unlocked(ck)
        fn = fns[q]
        if not bad:
            chk.ob(R, ent, True, loc="%s:%d" % (fn.file.replace("/repo/", ""), fn.line))
        for (n, i, what) in bad[:6]:
            chk.ob(R, "%s|%s" % (ent, what.split(" which")[0]), False, loc=fns[n].loc(i),
                   detail="%s: %s without LockGuard(impl->lock) held" % (ent, what), key="lockheld|%s|%s" % (ent, what.split(" which")[0]))
    chk.floor(R + ":entry-points", nentries, 8)
    nguards = sum(1 for fn in fns.values() for i, x in fn.ex.items() if x["k"] == "decl" and any("LockGuard" in v["ty"] for v in x["vars"]))
    chk.floor(R + ":guards", nguards, 3)


# --------------------------------------------------------------------------------------------- (b)
def globals_rule(chk, rules):
    R = "R-NO-MUTABLE-GLOBAL"
    chk.rule(R, "the writable static-storage objects (namespace scope, class static, function static) defined by the library units are "
                "exactly the reviewed one-shot caches listed in rules/c11.json; anything else - a scratch buffer, a cache, a lazily filled "
                "table - is shared mutable state behind the API")
    allowed = rules["mutable_globals"]
    units = core.library_units()

    def one(u):
        return u, core.astfacts(u, globals_=True)
    seen = {}
    with ThreadPoolExecutor(16) as ex:
        for u, f in ex.map(one, units):
            chk.units.add(u)
            for g in f["globals"]:
                if g["const"] or g["constexpr"]:
                    continue
                if "/ujit/" in g["file"]:
                    continue
                key = g["name"] + ("@" + short(g.get("in_function", "")) if g.get("static_local") else "")
                seen.setdefault(key, g)
    chk.floor(R + ":units", len(units), 55)
    for key, g in sorted(seen.items()):
        loc = "%s:%d" % (g["file"].replace("/repo/", ""), g["line"])
        sk = short(key)
        if sk in allowed:
            chk.ob(R, sk, True, loc=loc, detail="allowed: " + allowed[sk])
        else:
            chk.ob(R, sk, False, loc=loc, detail="writable %s object `%s` of type %s is not in the reviewed list of one-shot caches" % (
                "function-static" if g.get("static_local") else "static-storage", sk, g["ty"]), key="mutableglobal|" + sk)
    missing = sorted(set(allowed) - {short(k) for k in seen})
    chk.extra["mutable_globals_seen"] = sorted(short(k) for k in seen)
    chk.extra["mutable_globals_listed_but_absent"] = missing
    chk.floor(R + ":writable-globals", len(seen), 5)
    ir_audit(chk, rules, units)


def ir_audit(chk, rules, units):
    """LLVM IR cross-check: every `@x = ... global` definition that is not `constant`."""
    R = "R-NO-MUTABLE-GLOBAL-IR"
    chk.rule(R, "LLVM IR of every library unit (-O0, real flags): each writable global definition demangles to an allow-listed object")
    allowed = rules["mutable_globals"]
    tmp = tempfile.mkdtemp(prefix="verif-ir-", dir=os.environ.get("TMPDIR", "/tmp"))
    try:
        def one(u):
            out = os.path.join(tmp, u.replace("/", "_") + ".ll")
            p = subprocess.run(["clang++", "-std=gnu++17", "-I" + core.REPO, "-fno-threadsafe-statics", "-O0", "-S", "-emit-llvm", "-w",
                                os.path.join(core.REPO, u), "-o", out], stdout=subprocess.PIPE, stderr=subprocess.STDOUT, text=True)
            return u, p.returncode, out, p.stdout[-500:]
        names = {}
        with ThreadPoolExecutor(16) as ex:
            for u, rc, out, log in ex.map(one, units):
                chk.need(rc == 0, "clang -emit-llvm failed on %s: %s" % (u, log))
                with open(out) as fh:
                    for line in fh:
                        m = re.match(r"^@([^\s]+) = (.*?)\b(global|constant)\b", line)
                        if m and m.group(3) == "global" and "external" not in m.group(2) and not m.group(1).startswith((".str", "llvm.", "__const")):
                            names.setdefault(m.group(1).strip('"'), u)
                os.unlink(out)
        if names:
            p = subprocess.run(["llvm-cxxfilt-14"] + list(names), stdout=subprocess.PIPE, text=True)
            dem = dict(zip(names, p.stdout.strip().split("\n")))
        else:
            dem = {}
        allowed_flat = set(allowed)
        for mangled, u in sorted(names.items()):
            d = dem.get(mangled, mangled)
            d0 = re.sub(r"^guard variable for ", "", d)
            d0 = short(d0)
            d0 = re.sub(r"\(.*?\)(::)", r"\1", d0)   # f()::x -> f::x
            ok = any(d0 == a or d0.endswith("::" + a.split("@")[0]) or a.split("@")[0].endswith(d0) for a in allowed_flat)
            chk.ob(R, d0, ok, loc=u, detail="IR defines writable global `%s` which is not allow-listed" % d)
        chk.floor(R + ":ir-globals", len(names), 5)
    finally:
        import shutil
        shutil.rmtree(tmp, ignore_errors=True)


# --------------------------------------------------------------------------------------------- (c)
def constcast_rule(chk, rules):
    R = "R-CONST-STAYS-CONST"
    chk.rule(R, "a cast that removes const from the address of a namespace-scope constant is listed, and the resulting pointer is only "
                "stored or compared in that function (never written through)")
    allowed = rules["const_casts"]
    units = core.library_units()

    def one(u):
        return u, core.astfacts(u, constcasts=True)
    seen = {}
    with ThreadPoolExecutor(16) as ex:
        for u, f in ex.map(one, units):
            for c in f["constcasts"]:
                if c.get("global") and "/ujit/" not in c["file"]:
                    seen[(c["global"], c["in"], c["file"], c["line"])] = c
    for (g, fn, file, line), c in sorted(seen.items()):
        key = "%s in %s" % (short(g), short(fn))
        chk.ob(R, key, key in allowed, loc="%s:%d" % (file.replace("/repo/", ""), line),
               detail=("allowed: " + allowed[key]) if key in allowed else "const removed from the address of constant `%s` in %s (%s): not reviewed" % (short(g), short(fn), c["text"][:80]),
               key="constcast|" + key)
    chk.floor(R + ":casts", len(seen), 2)
