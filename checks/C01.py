"""C01 — x86/x64 encodings: table / database / dispatch clauses (DESIGN.md section 3 / C01)."""
from lib import cfg, x86tables, regen, pcrel, x86order
from lib.regions import Regions

UNIT = "asmjit/x86/x86assembler.cpp"
DBUNIT = "asmjit/x86/x86instdb.cpp"


def run(chk):
    f = chk.facts(UNIT, funcs=r"x86::Assembler::_emit$",
                  tables=r"asmjit::x86::[A-Za-z0-9_]*(table|Table)[A-Za-z0-9_]*$",
                  enums=r"asmjit::RegType$|asmjit::x86::Opcode::Bits$|asmjit::x86::X86MemInfo|asmjit::x86::SReg::Id$|asmjit::x86::Gp::Id$|asmjit::x86::X86Byte|asmjit::x86::InstDB::EncodingId$")
    # C01.a
    x86tables.run(chk, f, UNIT)

    # C01.c dispatch
    emit = cfg.find_fn(f, "x86::Assembler::_emit")
    regions = Regions(emit)
    chk.need(regions.dispatch is not None, "dispatch switch not found in x86::Assembler::_emit")
    R = "R-SWITCH-COVERS"
    chk.rule(R, "the dispatch switch of x86 _emit has a case for every InstDB::EncodingId enumerator (kEncodingCount excluded)")
    enum = f["enums"].get("asmjit::x86::InstDB::EncodingId")
    chk.need(enum is not None, "enum x86::InstDB::EncodingId not found")
    cases = {c["n"] for c in regions.dispatch["cases"]}
    names = [n for n, v in enum["enumerators"] if n != "kEncodingCount"]
    chk.floor(R + ":enumerators", len(names), 150)
    for n in names:
        chk.ob(R, "x86::_emit|" + n, n in cases, loc=UNIT, detail="no `case InstDB::%s` in the dispatch switch" % n)

    # C01.a' 8-bit register fix-ups: encodings 4..7 are AH..BH without REX and SPL..DIL with REX (SDM vol.2 3.1.1.1 / table 3-1)
    RG = "R-GPB-FIXUP"
    chk.rule(RG, "every FIXUP_GPB expansion forces REX for low-byte register ids >= 4 (SPL, BPL, SIL, DIL) and moves AH..BH from ids 0..3 to "
                 "encodings 4..7: both constants equal 4 in all expansions")
    thr, adj = [], []
    for i, x in emit.ex.items():
        if x.get("m") == "FIXUP_GPB" and x["k"] == "binop":
            r = emit.e(emit.strip(x["rhs"]))
            if x["op"] in (">=", ">", "<", "<=") and r is not None and "cv" in r:
                thr.append((x["op"], r["cv"], i))
            elif x["op"] == "+=" and r is not None and "cv" in r:
                adj.append((r["cv"], i))
    chk.floor(RG + ":expansions", len(thr), 20)
    bad_t = [t for t in thr if (t[0], t[1]) != (">=", 4)]
    bad_a = [a for a in adj if a[0] != 4]
    chk.ob(RG, "threshold", not bad_t and len(thr) == len(adj), loc=emit.loc(bad_t[0][2]) if bad_t else UNIT,
           detail="FIXUP_GPB tests `id %s %s` instead of `id >= 4`: a low-byte register would lose / gain its REX prefix" % (bad_t[0][0], bad_t[0][1]) if bad_t else "")
    chk.ob(RG, "high-byte-adjust", not bad_a, loc=emit.loc(bad_a[0][1]) if bad_a else UNIT, detail="AH..BH are moved by %s instead of 4" % (bad_a[0][0] if bad_a else ""))

    # C01.e RIP-relative displacements are relative to the end of the instruction (shared with C03/C04)
    pcrel.run(chk, emit, UNIT)
    pcrel.run_position(chk, emit, UNIT)

    # C01.f prefix order, AH/AL ambiguity, packed-field tests (rules added after an independent probe of the unchanged tree)
    fw = chk.facts(UNIT, funcs=r"asmjit::x86::X86BufferWriter::[a-z_0-9]+$")
    x86order.WRITER_HELPERS.clear()
    x86order._HELPER_KIND.clear()
    for fo in fw["functions"]:
        g = cfg.Fn(fo)
        x86order.WRITER_HELPERS.setdefault(g.name, g)
    x86order.prefix_order(chk, emit, UNIT)
    x86order.gpb_compare(chk, emit, UNIT)
    x86order.field_compare(chk, emit, UNIT)
    x86order.nodisp_not_bp(chk, emit, UNIT)
    x86order.index_scale_seen(chk, emit, UNIT)
    from lib import ubsigned
    helpers_ub = [g for g in cfg.load_functions(chk.facts(UNIT, funcs=r"asmjit::x86::[a-z_0-9]+$")) if g.file.endswith("x86assembler.cpp")]
    ubsigned.run(chk, [emit] + helpers_ub, floor=3)
    from lib import evexsiblings
    evexsiblings.run(chk)
    fd = chk.facts(DBUNIT, tables=r"asmjit::x86::InstDB::(_inst_info_table|main_opcode_table|alt_opcode_table)$", enums=r"asmjit::x86::Inst::Id$|asmjit::x86::Opcode::Bits$")
    OB = {n: v for n, v in fd["enums"]["asmjit::x86::Opcode::Bits"]["enumerators"]}
    rows = fd["tables"]["asmjit::x86::InstDB::_inst_info_table"]["value"]
    mainop = fd["tables"]["asmjit::x86::InstDB::main_opcode_table"]["value"]
    altop = fd["tables"]["asmjit::x86::InstDB::alt_opcode_table"]["value"]
    encn = {v: n for n, v in enum["enumerators"]}
    nine = set()
    for r in rows:
        for opc in (mainop[r["_main_opcode_index"]] | r["_main_opcode_value"], altop[r["_alt_opcode_index"]]):
            if opc and (opc & OB["kPP_FPUMask"]) == OB["kPP_9B"]:
                nine.add(encn.get(r["_encoding"], "?"))
    starts = {b["label"]["name"]: b["id"] for b in emit.blocks.values() if b.get("label") and b["label"]["kind"] == "case" and b["label"]["name"] in nine}
    chk.need(len(starts) == len(nine), "dispatch cases of the kPP_9B encodings %s not found" % sorted(nine - set(starts)))
    x86order.fwait_first(chk, emit, UNIT, starts)

    # C01.b rows vs database
    try:
        from lib import x86db
    except ImportError:
        x86db = None
    if x86db:
        x86db.run(chk, enum)
        x86db.run_modmr(chk, emit, enum)

    # C01.d generated tables in sync (thorough tier: the regeneration also runs under C12/C13 quick)
    if chk.tier == "thorough":
        regen.run(chk, files_of_interest=["x86instdb.cpp", "x86instdb_p.h", "x86globals.h"])

    from lib import sentinel, opkind
    sentinel.run_units(chk, ("x86",))
    opkind.run(chk, emit, floor=30)

    from lib import jecxzrule
    jecxzrule.run(chk)
    from lib import labelbase
    labelbase.run(chk)
    from lib import strsegment, fpuarith
    strsegment.run(chk)
    fpuarith.run(chk, enum)
    from lib import addr16
    addr16.run(chk)
    return chk.finish(
        level="other", exhaustive=False,
        explanation=("Table, database and dispatch rules over the x86 backend of /repo's current source: every entry of the encoder's "
                     "constant lookup tables (as evaluated by clang) equals an independent oracle (exhaustive over ~1250 entries); every "
                     "instruction row's opcode agrees with a db/isa_x86.json form of the mnemonic; every encoding class has a dispatch case. "
                     "Does not decide prefix/ModRM/immediate arithmetic over operand values."))
