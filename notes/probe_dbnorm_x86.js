const x86 = require("/repo/db/x86.js"); const fs=require("fs");
const isa = new x86.ISA(JSON.parse(fs.readFileSync("/repo/db/isa_x86.json")));
const out=[]; isa.instructions.forEach(i=>{ out.push({name:i.name, enc:i.encoding, prefix:i.prefix, op:i.opcode, opstr:i.opcodeString, tt:i.tupleType, ops:i.operands.map(o=>o.toString())}); });
fs.writeFileSync("/tmp/exp/dbx86.json", JSON.stringify(out));
console.log(out.length);
