"""R-INPUT-USED: a value read from an operand (offset(), value(), shift(), ...) into a local must be read
again on every path from that definition to the point where the instruction word is written; an input that
is fetched and then ignored on one path means the encoding silently drops part of the operand.
May-analysis of 'pending' definitions: gen at `local = <operand accessor>`, kill when the local is read
or overwritten; report pending definitions at emit events (error exits are not emit events)."""
from .cfg import forward

ACCESSORS = {"offset", "offset_lo32", "value", "value_as", "shift", "predicate", "element_index", "id", "base_id", "index_id"}


def analyse(fn, emit_callees=("emit32u_le", "emit8", "emit32u_be"), operand_params=("o0", "o1", "o2", "op_ext", "rm_rel", "m")):
    defs = {}      # elem id -> did
    names = {}
    for i, x in fn.ex.items():
        rhs = None
        did = None
        if x["k"] == "decl":
            for v in x["vars"]:
                if v.get("init"):
                    rhs, did = v["init"], v["did"]
                    names[did] = v["name"]
                    if is_accessor(fn, rhs):
                        defs[i] = did
        elif x["k"] == "binop" and x["op"] == "=":
            l = fn.e(fn.strip(x["lhs"]))
            if l and l["k"] == "ref" and l.get("dk") == "local" and is_accessor(fn, x["rhs"]):
                defs[i] = l["did"]
                names[l["did"]] = l["name"]
    reads = {}     # elem id -> set(did) read by that element (excluding pure assignment targets)
    for i, x in fn.ex.items():
        if x["k"] == "ref" and x.get("dk") == "local":
            reads.setdefault(i, set()).add(x["did"])
    assign_lhs = set()
    for i, x in fn.ex.items():
        if x["k"] == "binop" and x["op"] == "=":
            l = fn.strip(x["lhs"])
            if fn.kind(l) == "ref":
                assign_lhs.add(l)
    reports = {}

    def step(el, st, report):
        x = fn.e(el)
        if not x:
            return st
        if el in reads and el not in assign_lhs:
            st = frozenset(p for p in st if p[0] not in reads[el])
        if x["k"] == "binop" and x["op"] == "=":
            l = fn.e(fn.strip(x["lhs"]))
            if l and l["k"] == "ref" and "did" in l:
                st = frozenset(p for p in st if p[0] != l["did"])
        if el in defs:
            st = st | {(defs[el], el)}
        if x["k"] in ("call", "mcall") and x.get("cn") in emit_callees and report:
            for p in st:
                reports.setdefault(p, el)
        return st

    def transfer(b, st):
        for el in fn.blocks[b]["elems"]:
            if isinstance(el, int):
                st = step(el, st, False)
        return st

    def join(states):
        s = set()
        for t in states:
            s |= t
        return frozenset(s)
    IN, OUT = forward(fn, frozenset(), transfer, join)
    for b in fn.blocks:
        if b in IN:
            st = IN[b]
            for el in fn.blocks[b]["elems"]:
                if isinstance(el, int):
                    st = step(el, st, True)
    return [(names.get(did, "?"), d, e) for (did, d), e in reports.items()], len(defs)


def is_accessor(fn, eid):
    x = fn.e(fn.strip(eid))
    if not x:
        return False
    if x["k"] == "mcall" and x.get("cn") in ACCESSORS and "Operand" in x.get("cls", "") or (x["k"] == "mcall" and x.get("cn") in ACCESSORS and any(
            c in x.get("cls", "") for c in ("Mem", "Imm", "Reg", "Vec", "Gp", "Label"))):
        return True
    return False
