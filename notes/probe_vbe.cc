// FEASIBILITY PROBE (design phase) — not part of the verification machinery.
// Backs the numbers quoted for R-VALIDATE-BEFORE-EMIT in DESIGN.md section 2.
// Build: clang++ $(llvm-config-14 --cxxflags) -fno-rtti probe_vbe.cc -o vbe /usr/lib/llvm-14/lib/libclang-cpp.so.14 /usr/lib/llvm-14/lib/libLLVM-14.so
// Run:   ./vbe /repo/asmjit/arm/a64assembler.cpp -- -std=gnu++17 -I/repo
// Probe: validate-before-pack must-set dataflow on a64::Assembler::_emit
#include "clang/AST/ASTConsumer.h"
#include "clang/AST/RecursiveASTVisitor.h"
#include "clang/Analysis/CFG.h"
#include "clang/Frontend/CompilerInstance.h"
#include "clang/Frontend/FrontendAction.h"
#include "clang/Tooling/CommonOptionsParser.h"
#include "clang/Tooling/Tooling.h"
#include "llvm/Support/CommandLine.h"
#include <set>
#include <map>
#include <vector>
using namespace clang;
using namespace clang::tooling;
static llvm::cl::OptionCategory Cat("vbp");
typedef std::set<std::string> KS;

static const Expr* strip(const Expr* e) {
  for (;;) {
    e = e->IgnoreParenImpCasts();
    if (auto m = dyn_cast<MaterializeTemporaryExpr>(e)) { e = m->getSubExpr(); continue; }
    if (auto c = dyn_cast<CXXFunctionalCastExpr>(e)) { e = c->getSubExpr(); continue; }
    if (auto c = dyn_cast<CStyleCastExpr>(e)) { e = c->getSubExpr(); continue; }
    if (auto c = dyn_cast<CXXStaticCastExpr>(e)) { e = c->getSubExpr(); continue; }
    if (auto b = dyn_cast<CXXBindTemporaryExpr>(e)) { e = b->getSubExpr(); continue; }
    if (auto c = dyn_cast<CXXConstructExpr>(e)) { if (c->getNumArgs()==1) { e = c->getArg(0); continue; } }
    return e;
  }
}
struct Ctx { std::map<const VarDecl*, std::string> alias; };
static std::string keyOf(const Expr* e, Ctx& cx);
static std::string keyOfDecl(const ValueDecl* d, Ctx& cx) {
  if (auto v = dyn_cast<VarDecl>(d)) {
    auto it = cx.alias.find(v); if (it != cx.alias.end()) return it->second;
    QualType t = v->getType().getNonReferenceType().getUnqualifiedType();
    std::string ts = t.getAsString();
    if (ts.find("Operand_") != std::string::npos || isa<ParmVarDecl>(v)) return v->getNameAsString();
    if (v->hasInit() && !isa<ParmVarDecl>(v)) {
      cx.alias[v] = ""; // cycle guard
      std::string k = keyOf(v->getInit(), cx);
      if (k.empty() && t->isIntegerType()) k = ""; 
      cx.alias[v] = k.empty() ? (t->isIntegerType()? "" : v->getNameAsString()) : k;
      if (cx.alias[v].empty() && (ts.find("Operand")!=std::string::npos || ts.find("Reg")!=std::string::npos|| ts.find("Vec")!=std::string::npos|| ts.find("Gp")!=std::string::npos || ts.find("Mem")!=std::string::npos)) cx.alias[v]=v->getNameAsString();
      return cx.alias[v];
    }
    return "";
  }
  return "";
}
static std::string keyOf(const Expr* e, Ctx& cx) {
  e = strip(e);
  if (auto d = dyn_cast<DeclRefExpr>(e)) return keyOfDecl(d->getDecl(), cx);
  if (auto u = dyn_cast<UnaryOperator>(e)) { if (u->getOpcode()==UO_Deref || u->getOpcode()==UO_AddrOf) return keyOf(u->getSubExpr(), cx); }
  if (auto c = dyn_cast<ConditionalOperator>(e)) { // cond ? o0 : o1 -> alias of its own (handled by VarDecl name)
    return ""; }
  if (auto b = dyn_cast<BinaryOperator>(e)) { if (b->getOpcode()==BO_And) { std::string k = keyOf(b->getLHS(), cx); if (!k.empty()) return k; return keyOf(b->getRHS(), cx);} return ""; }
  if (auto m = dyn_cast<CXXMemberCallExpr>(e)) {
    const CXXMethodDecl* md = m->getMethodDecl(); if (!md) return "";
    std::string n = md->getNameAsString();
    const Expr* obj = m->getImplicitObjectArgument();
    std::string base = obj ? keyOf(obj, cx) : "";
    if (n=="as") return base;
    if (n=="id") return base;
    if (n=="base_id") return base.empty()? "" : base + ".base";
    if (n=="index_id") return base.empty()? "" : base + ".index";
    return "";
  }
  if (auto me = dyn_cast<MemberExpr>(e)) { return ""; }
  return "";
}

struct Finder : RecursiveASTVisitor<Finder> {
  ASTContext& C; Finder(ASTContext& C):C(C){}
  bool VisitFunctionDecl(FunctionDecl* F) {
    if (!F->doesThisDeclarationHaveABody()) return true;
    if (F->getQualifiedNameAsString().find("a64::Assembler::_emit")==std::string::npos) return true;
    analyze(F); return true;
  }
  void analyze(FunctionDecl* F) {
    CFG::BuildOptions BO; BO.setAllAlwaysAdd();
    auto cfg = CFG::buildCFG(F, F->getBody(), &C, BO);
    Ctx cx; SourceManager& SM = C.getSourceManager();
    unsigned N = cfg->getNumBlockIDs();
    static const std::set<std::string> validators = {"check_gp_id","check_vec_id","check_valid_regs","check_mem_base","check_mem_base_index_rel"};
    // per block: ordered events
    struct Ev { int kind; std::vector<std::string> keys; unsigned line; std::string txt; };
    std::vector<std::vector<Ev>> evs(N);
    unsigned packs=0, vals=0;
    for (CFGBlock* B : *cfg) {
      for (auto& El : *B) {
        auto S = El.getAs<CFGStmt>(); if (!S) continue;
        const Stmt* st = S->getStmt();
        if (auto ce = dyn_cast<CallExpr>(st)) {
          const FunctionDecl* fd = ce->getDirectCallee(); if (!fd) continue;
          std::string n = fd->getNameAsString();
          unsigned line = SM.getExpansionLineNumber(ce->getBeginLoc());
          if (n=="emit32u_le") { Ev e; e.kind=2; e.line=line; e.txt=n; evs[B->getBlockID()].push_back(e); }
          else if (validators.count(n)) {
            Ev e; e.kind=0; e.line=line; e.txt=n;
            for (unsigned i=0;i<ce->getNumArgs();i++) { std::string k = keyOf(ce->getArg(i), cx); if (!k.empty()) { if (n.find("check_mem_base")==0) k += ".base"; e.keys.push_back(k);} }
            evs[B->getBlockID()].push_back(e); vals++;
          } else if (n=="add_reg" && isa<CXXMemberCallExpr>(ce)) {
            // only count outer calls from _emit body: the Operand_ overload or uint32 overload
            Ev e; e.kind=1; e.line=line; e.txt="add_reg";
            const Expr* a0 = ce->getArg(0);
            Expr::EvalResult R; 
            if (a0->EvaluateAsInt(R, C)) continue; // constant id
            std::string k = keyOf(a0, cx);
            e.keys.push_back(k.empty()? std::string("?") : k);
            evs[B->getBlockID()].push_back(e); packs++;
          } else if (n=="is_gp64" || n=="is_gp32" ) {
            if (ce->getNumArgs()==1) { // exact id test
              if (auto m = dyn_cast<CXXMemberCallExpr>(ce)) { std::string k = keyOf(m->getImplicitObjectArgument(), cx); if(!k.empty()){ Ev e; e.kind=0; e.line=line; e.txt=n; e.keys.push_back(k); evs[B->getBlockID()].push_back(e);} }
            }
          }
        } else if (auto bo = dyn_cast<BinaryOperator>(st)) {
          if (bo->getOpcode()==BO_And) {
            Expr::EvalResult R; 
            if (bo->getRHS()->EvaluateAsInt(R, C) && R.Val.getInt()==31) { std::string k = keyOf(bo->getLHS(), cx); if(!k.empty()){ Ev e; e.kind=1; e.line=SM.getExpansionLineNumber(bo->getBeginLoc()); e.txt="&31"; e.keys.push_back(k); evs[B->getBlockID()].push_back(e); packs++; } }
          }
          if (bo->isRelationalOp() || bo->isEqualityOp()) {
            // X.id() <op> const  -> validator of key
            for (const Expr* side : {bo->getLHS(), bo->getRHS()}) {
              const Expr* s = strip(side);
              if (auto m = dyn_cast<CXXMemberCallExpr>(s)) {
                const CXXMethodDecl* md = m->getMethodDecl();
                if (md && (md->getNameAsString()=="id"||md->getNameAsString()=="index_id"||md->getNameAsString()=="base_id")) {
                  std::string k = keyOf(s, cx);
                  if (!k.empty()) { Ev e; e.kind=0; e.line=SM.getExpansionLineNumber(bo->getBeginLoc()); e.txt="cmp"; e.keys.push_back(k); evs[B->getBlockID()].push_back(e);} }
              } else if (auto d = dyn_cast<DeclRefExpr>(s)) {
                if (auto v = dyn_cast<VarDecl>(d->getDecl())) if (v->getType()->isIntegerType() && v->hasInit() && !isa<ParmVarDecl>(v)) {
                  std::string k = keyOf(s, cx);
                  if (!k.empty()) { Ev e; e.kind=0; e.line=SM.getExpansionLineNumber(bo->getBeginLoc()); e.txt="cmpv"; e.keys.push_back(k); evs[B->getBlockID()].push_back(e);} }
              }
            }
          }
        }
      }
    }
    // V: must-validated (intersection), U: may-unvalidated-packed (union) with line of pack
    KS universe; for (auto& v: evs) for (auto& e: v) for (auto& k: e.keys) universe.insert(k);
    typedef std::set<std::pair<std::string,unsigned>> UM;
    std::vector<KS> VIN(N, universe), VOUT(N, universe);
    std::vector<UM> UIN(N), UOUT(N);
    unsigned entry = cfg->getEntry().getBlockID();
    bool changed = true; int iters=0; unsigned viol=0;
    std::set<std::pair<unsigned,std::string>> reported;
    auto transfer = [&](unsigned id, KS& V, UM& U, bool report) {
      for (auto& e : evs[id]) {
        if (e.kind==0) for (auto&k:e.keys) { V.insert(k); for (auto it=U.begin(); it!=U.end();) { if (it->first==k) it=U.erase(it); else ++it; } }
        else if (e.kind==1) { for (auto&k:e.keys) if (!V.count(k)) U.insert({k,e.line}); }
        else if (e.kind==2 && report) { for (auto& kv: U) if (reported.insert({kv.second,kv.first}).second) { viol++; llvm::outs() << "UNVALIDATED-AT-EMIT pack line " << kv.second << " key=" << kv.first << " emit line " << e.line << "\n"; } }
      }
    };
    while (changed) { changed=false; iters++;
      for (CFGBlock* B : *cfg) { unsigned id=B->getBlockID();
        KS vin; UM uin; bool first=true;
        if (id!=entry) { for (auto P : B->preds()) { CFGBlock* pb = P.getReachableBlock(); if(!pb) continue; unsigned pid=pb->getBlockID();
            if (first) { vin = VOUT[pid]; first=false; } else { KS t; for (auto&k: vin) if (VOUT[pid].count(k)) t.insert(k); vin.swap(t);} 
            for (auto& kv: UOUT[pid]) uin.insert(kv); }
          if (first) vin = universe; }
        KS vout=vin; UM uout=uin; transfer(id, vout, uout, false);
        if (vin!=VIN[id] || vout!=VOUT[id] || uin!=UIN[id] || uout!=UOUT[id]) { VIN[id]=vin; VOUT[id]=vout; UIN[id]=uin; UOUT[id]=uout; changed=true; }
      }
    }
    for (CFGBlock* B : *cfg) { unsigned id=B->getBlockID(); KS v=VIN[id]; UM u=UIN[id]; transfer(id, v, u, true); }
    llvm::outs() << "blocks=" << N << " packs=" << packs << " validator_calls=" << vals << " iters=" << iters << " violations=" << viol << "\n";
  }
};
struct Cons : ASTConsumer { void HandleTranslationUnit(ASTContext &C) override { Finder v(C); v.TraverseDecl(C.getTranslationUnitDecl()); } };
struct Act : ASTFrontendAction { std::unique_ptr<ASTConsumer> CreateASTConsumer(CompilerInstance&, StringRef) override { return std::make_unique<Cons>(); } };
int main(int argc, const char **argv) {
  auto P = CommonOptionsParser::create(argc, argv, Cat);
  if (!P) { llvm::errs() << P.takeError(); return 1; }
  ClangTool T(P->getCompilations(), P->getSourcePathList());
  return T.run(newFrontendActionFactory<Act>().get());
}
